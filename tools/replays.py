#!/venv/bin/python
"""summarise /verif/replays/<ID>/*.json by (signature, triggers)"""
import sys, json, glob, collections
c = collections.Counter(); ex = {}
for f in glob.glob(f'/verif/replays/{sys.argv[1]}/*.json'):
    d = json.load(open(f)); k = json.dumps(d['signature'], sort_keys=True) + ' T=' + ','.join(d.get('triggers') or [])
    c[k] += 1; ex.setdefault(k, (d.get('case_id'), f))
for k, v in c.most_common(): print(v, k, ex[k])
