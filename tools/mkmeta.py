#!/venv/bin/python
"""tools/mkmeta.py : write seeded/<name>/meta.json from the last evaluation (scratch/seeded/<name>.json, produced by
tools/seeded.py) and the author's notes.md.  Also prints the table used in DESIGN.md section 6.5."""
import glob
import json
import os
import re
import subprocess

V = "/verif"


def field(notes, *names):
    for n in names:
        m = re.search(r"^\**" + n + r"\**\s*[:：]\s*(.+?)(?=\n\S[^\n]{0,40}:|\n\n|\Z)", notes, re.M | re.S | re.I)
        if m:
            return " ".join(m.group(1).split())
    return ""


def main():
    rows = []
    repo_head = subprocess.run(["git", "-C", "/repo", "rev-parse", "--short", "HEAD"], capture_output=True, text=True).stdout.strip()
    for d in sorted(glob.glob(V + "/seeded/C*")):
        n = os.path.basename(d)
        prop = n.split("-")[0]
        notes = open(d + "/notes.md", encoding="utf-8").read() if os.path.exists(d + "/notes.md") else ""
        title = notes.splitlines()[0].lstrip("# ").strip() if notes else n
        ev = {}
        p = f"{V}/scratch/seeded/{n}.json"
        if os.path.exists(p):
            try:
                ev = json.load(open(p))
            except Exception:
                ev = {}
        extra = {}
        px = f"{V}/scratch/seeded/{n}.extra.json"
        if os.path.exists(px):
            extra = json.load(open(px))
        checks = dict(ev.get("checks", {}))
        checks.update(extra.get("checks", {}))
        caught_by = sorted(k for k, v in checks.items() if v.get("rc") == 1 and v.get("violation_lines", 0) > 0)
        meta = dict(
            id=n,
            breaks_property=prop,
            title=title,
            change=field(notes, "Change[^:\n]*"),
            needs_to_manifest=field(notes, r"[^\n:]*manifest[^\n:]*"),
            why_tests_do_not_notice=field(notes, r"Why[^\n:]*tests[^\n:]*"),
            files=["patch.diff", "demo.py", "notes.md"],
            confirmed=dict(
                how="tools/seeded.py: rsync copy of /repo, patch -p1, demo.py on clean and patched tree (PYTHONPATH=<copy>/src), "
                "repository test suite on the patched copy (constexpr timing tests re-run alone), then ./check <ID> quick with VERIF_REPO=<copy>",
                repo_commit=repo_head,
                patch_applied=ev.get("patch_applied"),
                demo_rc_on_clean_tree=ev.get("demo_on_clean_rc"),
                demo_rc_on_patched_tree=ev.get("demo_on_patched_rc"),
                repository_tests_rc_with_patch=ev.get("tests_rc"),
                repository_tests_summary=ev.get("tests_tail"),
                tests_failed_first_run_then_passed_alone=ev.get("tests_failed_first_run", []),
            ),
            checks_run={k: dict(exit=v.get("rc"), violation_lines=v.get("violation_lines"), wall_s=v.get("wall_s"), first_violation=(v.get("first") or "")[:300]) for k, v in checks.items()},
            caught_by_quick=caught_by,
            caught=bool(caught_by),
            note=extra.get("note", ""),
        )
        json.dump(meta, open(d + "/meta.json", "w"), indent=1, sort_keys=False)
        rows.append((n, title[:70], ",".join(caught_by) or "-", ev.get("demo_on_patched_rc"), ev.get("tests_rc")))
    for r in rows:
        print("| %s | %s | %s | demo=%s tests=%s |" % r)


main()
