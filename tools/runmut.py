#!/venv/bin/python
"""tools/runmut.py [id-prefix ...]: apply each mutation of tools/mutations.txt to a scratch copy of /repo,
run the repository's tests (to confirm the change survives them) and the quick check; print caught / MISSED."""
import os, subprocess, sys, tempfile, shutil
rows = []
for l in open('/verif/tools/mutations.txt'):
    if l.startswith('#') or not l.strip(): continue
    parts = [p.strip() for p in l.rstrip('\n').split(' | ')]
    rows.append(parts)
sel = sys.argv[1:]
for mid, check, file, old, new in rows:
    if sel and not any(mid.startswith(s) for s in sel): continue
    old = old.replace('\\n', '\n').replace('\\|', '|'); new = new.replace('\\n', '\n').replace('\\|', '|')
    d = tempfile.mkdtemp(prefix='mutrepo.', dir='/tmp')
    try:
        subprocess.run(['rsync', '-a', '--exclude', '.git', '/repo/', d + '/'], check=True)
        p = os.path.join(d, file); s = open(p).read()
        if s.count(old) < 1:
            print(f"{mid:14} PATTERN-NOT-FOUND"); continue
        open(p, 'w').write(s.replace(old, new, 1))
        t = subprocess.run(['/venv/bin/python', '-m', 'pytest', '-q', '-x', '-p', 'no:cacheprovider', 'test', '--deselect', 'test/test_cases.py::test_cases[full-constexpr_eval]', '--deselect', 'test/test_cases.py::test_cases[compact-constexpr_eval]'], cwd=d, capture_output=True, text=True, env=dict(os.environ, PYTHONPATH=os.path.join(d, 'src')))
        tests = 'tests-pass' if t.returncode == 0 else 'TESTS-FAIL'
        env = dict(os.environ, VERIF_REPO=d, VERIF_OUT='/verif/scratch/alt')
        c = subprocess.run(['/verif/check', check, 'quick'], env=env, capture_output=True, text=True)
        vio = [l for l in c.stdout.splitlines() if l.startswith('VIOLATION')]
        print(f"{mid:14} {check} {tests:10} exit={c.returncode} {'caught' if c.returncode == 1 and vio else 'MISSED'} ({len(vio)} violation lines)", flush=True)
    finally:
        shutil.rmtree(d, ignore_errors=True)
