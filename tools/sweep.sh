#!/bin/bash
# tools/sweep.sh <tier> "<seeds>" "<props>" : run checks over several VERIF_SEED values; one line per run in scratch/sweep.txt
tier="$1"; seeds="$2"; props="${3:-C18 C16 C17 C09 C15 C05 C08 C03 C02 C06 C07 C01 C13 C04 C10 C12 C14 C11}"
cd /verif; mkdir -p scratch/sweep
for s in $seeds; do for p in $props; do
  t=$(date +%s)
  VERIF_SEED=$s ./check $p $tier > scratch/sweep/$p.$tier.$s.log 2>&1; rc=$?
  e=$(( $(date +%s) - t ))
  echo "$p tier=$tier seed=$s rc=$rc wall=${e}s viol=$(grep -c '^VIOLATION' scratch/sweep/$p.$tier.$s.log) known=$(grep -c '^KNOWN-FINDING' scratch/sweep/$p.$tier.$s.log) $(head -1 scratch/sweep/$p.$tier.$s.log | cut -c1-150)" >> scratch/sweep.txt
  if [ $rc -ne 0 ]; then mkdir -p scratch/sweep/replays.$p.$tier.$s; cp -r replays/$p/. scratch/sweep/replays.$p.$tier.$s/ 2>/dev/null; fi
done; done
