#!/bin/bash
# tools/runall.sh [tier] : run every check once, print one summary line per property
tier="${1:-quick}"
cd /verif
for p in C18 C16 C17 C09 C15 C05 C08 C03 C02 C06 C07 C01 C13 C04 C10 C12 C14 C11; do
  s=$(date +%s)
  out=$(./check $p $tier 2>&1); rc=$?
  e=$(( $(date +%s) - s ))
  nv=$(echo "$out" | grep -c '^VIOLATION'); nk=$(echo "$out" | grep -c '^KNOWN-FINDING')
  echo "$p rc=$rc wall=${e}s violations=$nv known=$nk $(echo "$out" | head -1 | cut -c1-140)"
  [ $rc -ne 0 ] && echo "$out" | grep -v '^  ' | head -8
done
