#!/venv/bin/python
"""Regenerate MANIFEST.json from the table below (run from /verif)."""
import json
import subprocess
from pathlib import Path

HERE = Path(__file__).resolve().parent.parent

CLAIMED = {
    "C18": dict(
        technique="runtime monitoring: round-trip + alphabet oracle on the real encode_data/decode_data under a generated workload, with a monitor that records which base64 residues/substitutions each case exercised",
        text="Exploration: the real functions are driven with 2e5 (quick) / 3e6 (thorough) generated JSON-native dictionaries; the oracle is the identity itself; the monitor shows every padding length and both alphabet substitutions were exercised. Held-on-observed, not a proof.",
        note="Trusts python's json/zlib/base64 only for classifying coverage; dictionaries are JSON-native.",
        ref="DESIGN.md §3 C18",
    ),
}

NOT_YET = {}


def main():
    props = [json.loads(l) for l in (HERE / "properties.jsonl").read_text().splitlines() if l.strip()]
    checks = []
    na = []
    for p in props:
        pid = p["id"]
        if pid in CLAIMED:
            c = CLAIMED[pid]
            checks.append(
                dict(
                    property_id=pid,
                    quick_cmd=f"./check {pid} quick",
                    thorough_cmd=f"./check {pid} thorough",
                    evidence_file=f"evidence/{pid}.json",
                    replay_cmd_template=f"./check {pid} --replay {{path}}",
                    engine="vf",
                    level_claimed=dict(category=c.get("category", "exploration"), text=c["text"], design_ref=c["ref"]),
                    level_note=c["note"],
                    technique=c["technique"],
                )
            )
        else:
            na.append(dict(property_id=pid, reason=NOT_YET.get(pid, "check not built yet in this round (runtime-monitoring design exists in DESIGN.md §3; it will be claimed once calibrated on the unchanged tree)")))
    try:
        commits = subprocess.run(["git", "-C", "/repo", "log", "--format=%H %s", "c5dd0fe..HEAD"], capture_output=True, text=True).stdout.splitlines()
    except Exception:
        commits = []
    hook_commits = [c.split()[0] for c in commits if "hook" in c.lower() and not c.split(" ", 1)[1].startswith("fix:")]
    m = dict(
        version=1,
        setup_cmd="./check --selftest",
        hooks=dict(
            guard="PYTRAPIC_VERIF",
            enable="PYTRAPIC_VERIF=1 in the environment of the worker processes of check C04 (read at call time inside CompilerPassGatherCode.run); no build step: checks import the package from /repo/src",
            baseline_off_cmd="cd /repo && env -u PYTRAPIC_VERIF /venv/bin/python -m pytest -ra -q -p no:cacheprovider --timeout=900 --continue-on-collection-errors",
            source_commits=hook_commits,
            add_only=True,
        ),
        engines=[dict(name="vf", path="vf/", serves_properties=sorted(CLAIMED), kind_free_text="python harness: generated workloads against the real package, reference IC10 machine with monitors, reference interpreter, differential and history checkers")],
        checks=checks,
        notes="All checks import stationeers_pytrapic from /repo/src (current working tree, no build, bytecode writing off). VERIF_SEED selects the workload. Exit 0 held / 1 violation / 2 inconclusive (monitors observed too little).",
        not_applicable=na,
    )
    (HERE / "MANIFEST.json").write_text(json.dumps(m, indent=1) + "\n")
    print("claimed:", sorted(CLAIMED), "not claimed:", [x["property_id"] for x in na])


if __name__ == "__main__":
    main()
