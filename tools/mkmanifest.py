#!/venv/bin/python
"""Regenerate MANIFEST.json from the table below (run from /verif)."""
import json
import subprocess
from pathlib import Path

HERE = Path(__file__).resolve().parent.parent

VM = "reference IC10 machine (vf/ic10_vm.py) within its trusted arithmetic domain, device model of vf/env.py"
CLAIMED = {
    "C01": dict(
        technique="runtime monitoring: emitted IC10 executed on an instrumented reference machine, effect trace compared online with an independent reference interpreter of the source under the same simulated devices",
        text="Exploration: ~2000 (quick) / ~25000 (thorough) generated, skeleton, echo, pressure, layout-mutated and corpus programs x 3-4 option vectors x 2-4 device environments; verdict = element-wise equality of effect traces up to caps; held-on-observed.",
        note="Trusts " + VM + " and vf/pyref.py; constructs outside the judged subset (DESIGN 2.4) are counted not_judged; known findings are attributed by monitor signature + trigger predicate.",
        ref="DESIGN.md 3 C01",
    ),
    "C02": dict(
        technique="runtime monitoring: differential execution of the outputs of one source under 13 option vectors on the reference machine; pragma-vs-API delivery compared",
        text="Exploration: every successful vector's effect trace must equal the first one's under the same environments; ~1300 sources x 13 vectors quick. No source model involved.",
        note="Trusts " + VM + "; a vector that errors where another compiles is recorded, not judged (coverage floor per {inline,tail,push/pop} combination enforced).",
        ref="DESIGN.md 3 C02",
    ),
    "C03": dict(
        technique="runtime monitoring: differential execution of folded vs run-time evaluated renderings of the same expression on the reference machine, plus the harness interpreter as an independent evaluator",
        text="Exploration with a completely enumerated operator x operand-class table (about 2000 rows) plus random trees (written values must agree across literal / stack-loaded / mixed / variable / function-argument renderings) and a statement-level flow stream: programs whose constants are literals in one rendering and stack loads in the other (constant tests of if / if not / while, parameters and locals assigned a constant, range bounds, globals) must produce the same effect trace.",
        note="Trusts vf/ic10_arith.py inside the trusted domain (positive modulus, non-negative ints < 2^31 for bit ops, no rounding ties).",
        ref="DESIGN.md 3 C03",
    ),
    "C04": dict(
        technique="runtime monitoring: shadow register tags on the reference machine, fed by the guarded hook (virtual -> physical register per instruction); register-range and 16-register limit monitors",
        text="Exploration: register-pressure families (k=1..24 live values), call graphs, random and layout-mutated programs; ~3e6 register reads tag-checked per quick run; a read that finds another virtual register's tag is a clobber with both instructions as witness.",
        note="Trusts the add-only hook (PYTRAPIC_VERIF=1) and the alignment of its list with the emitted text (misalignment = inconclusive); definite assignment of generated programs.",
        ref="DESIGN.md 3 C04",
    ),
    "C05": dict(
        technique="runtime monitoring: loader (labels defined exactly once, targets in range), harness-computed text relation between the two label modes, lock-step execution of both outputs with path comparison",
        text="Exploration over generated programs whose function names come from hostile identifier pools (prefix chains, clashes, label look-alikes, operand look-alikes, regex look-alikes), look-alike pairs that are both emitted as subroutines, strings containing label names, long-line programs with the version tag and source comments on, multi-module programs with same-named main functions, corpus.",
        note="Trusts vf/tok.py and the reference machine for the lock-step part; the relation is on tokenised instructions, so comment options may be on (a quarter of the pairs).",
        ref="DESIGN.md 3 C05",
    ),
    "C06": dict(
        technique="runtime monitoring: shadow call stack (return address, sp at return, arity-aware) on the reference machine; echo programs compared with the interpreter; recursion must be rejected",
        text="Exploration: call-heavy echo / tail-chain / random programs x the eight {inline, tail-call, push/pop} corners x both label modes; ~3e5 calls and returns checked per quick run.",
        note="Arity/returns-a-value read from the source; for-list bodies are pseudo calls whose frames may be abandoned by break.",
        ref="DESIGN.md 3 C06",
    ),
    "C07": dict(
        technique="runtime monitoring: region / fall-through monitor and state-cycle (divergence) detector on the reference machine; 'main has ended' supplied by the reference interpreter",
        text="Exploration: terminating and endless mains with 1-4 functions under the eight call-convention corners; function regions may only be entered by jal or a tail jump, a plain jump may not leave its region, a return may not land on an entry; after the source ends the chip must halt with the same effects (also judged when another monitor fired first).",
        note="The pinned tree's fall-through into the first function is a recorded known finding (pinned by .ref files); every other entry path or post-end effect is a violation.",
        ref="DESIGN.md 3 C07",
    ),
    "C08": dict(
        technique="runtime monitoring: token-wise comparison of compact vs verbose output with independent evaluators (own CRC-32, STR packing, enum snapshot, positional enum resolution from the ISA table)",
        text="Exploration + exhaustive enum stream: every member of every enum as a value and every LogicType/SlotType/BatchMethod in operand position in each run; strings from ASCII/Latin-1/astral alphabets.",
        note="Enum ground truth is the snapshot taken at the pinned commit (stated assumption).",
        ref="DESIGN.md 3 C08",
    ),
    "C09": dict(
        technique="runtime monitoring: ISA-table loader (static sanitizer) on every successful result, literal read-back monitor, version-note monitor",
        text="Exploration: generated programs, corpus, all intrinsic wrappers, device access forms, 2500 (quick) literals across binades and format-branch boundaries, version-note line lengths 40-100.",
        note="Trusts the hand-written ISA table (opcode set cross-checked against webapp/src/ic10.json at start-up).",
        ref="DESIGN.md 3 C09",
    ),
    "C10": dict(
        technique="runtime monitoring: wrapper monitors around the real compile_code (exception recorder, return-shape checker, child-process monitor via Popen wrapper and /proc, duration, watchdog with solo re-run)",
        text="Exploration: ~5600 hostile texts per quick run (mutated programs, unsupported constructs, recursion, Lua-looking text, dunder pragmas, deep nesting, constexpr bodies that fail/print/exit/loop, the same failing constexpr compiled before inside a longer text) x arbitrary option values.",
        note="'Promptly' is decided logically (children bounded by the code's own 1 s timeout); a wall-clock stall must reproduce when the case runs alone.",
        ref="DESIGN.md 3 C10",
    ),
    "C11": dict(
        technique="runtime monitoring: offline history checker over recorded request/response histories of one long-lived process, references from fresh processes and pristine forked children under several PYTHONHASHSEED values, input-immutability snapshots",
        text="Exploration: 8 (quick) / 64 (thorough) histories of 40-130 requests over pools chosen to touch every piece of process-wide state; each occurrence must equal the first occurrence and the fresh-process result.",
        note="constexpr timeouts under load are inconclusive; fresh processes import the same working tree.",
        ref="DESIGN.md 3 C11",
    ),
    "C12": dict(
        technique="runtime monitoring: direct evaluation of the same constexpr source in the harness + metamorphic twin (calls replaced by expected literals must give identical code)",
        text="Exploration: ~150 programs / ~430 call sites per quick run over 10 body templates x argument spellings x 7 call positions incl. library modules; 4 workers to protect the child's 1 s budget.",
        note="Results are numbers; a remaining timeout after two retries is inconclusive.",
        ref="DESIGN.md 3 C12",
    ),
    "C13": dict(
        technique="runtime monitoring: differential execution of the multi-module rendering vs the harness-merged single file on the reference machine, both also against the interpreter; unused-function output comparison",
        text="Exploration: 700 (quick) template programs rendered both ways, 1-3 modules with colliding global/function names, aliases, __main__ blocks with effects, uncalled functions, 3 option vectors.",
        note="Calls into modules from inside main-file functions are rejected by the transpiler and not generated.",
        ref="DESIGN.md 3 C13",
    ),
    "C14": dict(
        technique="runtime monitoring: line-protocol checker over the captured stdout of the real daemon process driven with scripted request histories incl. injected faults; unique marker per request",
        text="Exploration: 80-120 sessions (quick) of 5-45 lines in lock-step and burst mode; verdict after process exit: one base64-JSON object per non-empty request line before EXIT, in order, nothing else, exit 0.",
        note="Whitespace-only lines not generated; a session exceeding the wall-clock bound is inconclusive.",
        ref="DESIGN.md 3 C14",
    ),
    "C15": dict(
        technique="runtime monitoring: differential of the real compile_code on (text with directives, caller options) vs (neutralised text, options computed by the harness's own directive parser)",
        text="Exploration: 6600 (quick) pairs over directive spellings, positions, junk/dunder names, decoys (after code, in strings, behind form feed / U+2028) x all 256 caller vectors as dataclass or dict.",
        note="Trusts vf/harness.py directive_options as the reading of the property statement.",
        ref="DESIGN.md 3 C15",
    ),
    "C16": dict(
        technique="runtime monitoring: exhaustive walk over the live table objects with independent re-computation (own CRC-32, ISA table, singular/plural agreement, pinned snapshot)",
        text="Exhaustive enumeration (exhaustive: true): 358+358 structure classes, every logic type / slot property and the instruction it builds, 149 intrinsic wrappers, 27 enums / 643 members: 15587 obligations per run.",
        note="Slot-name ground truth = singular/plural/numbered agreement plus the pinned snapshot.",
        ref="DESIGN.md 3 C16",
    ),
    "C17": dict(
        technique="runtime monitoring: postcondition monitor - independent recount of lines / bytes / registers on every successful result",
        text="Exploration: ~8000 successful results per quick run over generated programs, corpus, multi-module programs and tiny/empty/comment-heavy programs x random option vectors.",
        note="Programs naming physical registers themselves are excluded from the register count; non-ASCII outputs accept character or UTF-8 byte length.",
        ref="DESIGN.md 3 C17",
    ),
    "C18": dict(
        technique="runtime monitoring: round-trip + alphabet oracle on the real encode_data/decode_data under a generated workload, with a monitor that records which base64 residues/substitutions each case exercised",
        text="Exploration: 2e5 (quick) / 3e6 (thorough) generated JSON-native dictionaries; the oracle is the identity itself; the monitor shows every padding length, both alphabet substitutions, every line-ending convention and JSON texts above 64 KiB and 1 MiB were exercised.",
        note="Trusts python's json/zlib/base64 only for classifying coverage; dictionaries are JSON-native.",
        ref="DESIGN.md 3 C18",
    ),
}

NOT_YET = {}


def main():
    props = [json.loads(l) for l in (HERE / "properties.jsonl").read_text().splitlines() if l.strip()]
    checks = []
    na = []
    for p in props:
        pid = p["id"]
        if pid in CLAIMED:
            c = CLAIMED[pid]
            checks.append(
                dict(
                    property_id=pid,
                    quick_cmd=f"./check {pid} quick",
                    thorough_cmd=f"./check {pid} thorough",
                    evidence_file=f"evidence/{pid}.json",
                    replay_cmd_template=f"./check {pid} --replay {{path}}",
                    engine="vf",
                    level_claimed=dict(category=c.get("category", "exploration"), text=c["text"], design_ref=c["ref"]),
                    level_note=c["note"],
                    technique=c["technique"],
                )
            )
        else:
            na.append(dict(property_id=pid, reason=NOT_YET.get(pid, "check not built yet in this round (runtime-monitoring design exists in DESIGN.md §3; it will be claimed once calibrated on the unchanged tree)")))
    try:
        commits = subprocess.run(["git", "-C", "/repo", "log", "--format=%H %s", "c5dd0fe..HEAD"], capture_output=True, text=True).stdout.splitlines()
    except Exception:
        commits = []
    hook_commits = [c.split()[0] for c in commits if "hook" in c.lower() and not c.split(" ", 1)[1].startswith("fix:")]
    m = dict(
        version=1,
        setup_cmd="./check --selftest",
        hooks=dict(
            guard="PYTRAPIC_VERIF",
            enable="PYTRAPIC_VERIF=1 in the environment of the worker processes of check C04 (read at call time inside CompilerPassGatherCode.run); no build step: checks import the package from /repo/src",
            baseline_off_cmd="cd /repo && env -u PYTRAPIC_VERIF /venv/bin/python -m pytest -ra -q -p no:cacheprovider --timeout=900 --continue-on-collection-errors",
            source_commits=hook_commits,
            add_only=True,
        ),
        engines=[dict(name="vf", path="vf/", serves_properties=sorted(CLAIMED), kind_free_text="python harness: generated workloads against the real package, reference IC10 machine with monitors, reference interpreter, differential and history checkers")],
        checks=checks,
        notes="All checks import stationeers_pytrapic from /repo/src (current working tree, no build, bytecode writing off). VERIF_SEED selects the workload. Exit 0 held / 1 violation / 2 inconclusive (monitors observed too little).",
        not_applicable=na,
    )
    (HERE / "MANIFEST.json").write_text(json.dumps(m, indent=1) + "\n")
    print("claimed:", sorted(CLAIMED), "not claimed:", [x["property_id"] for x in na])


if __name__ == "__main__":
    main()
