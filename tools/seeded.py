#!/venv/bin/python
"""tools/seeded.py <dir-with-patch.diff-and-demo.py> <property> [check ...]
Apply the patch to a scratch copy of /repo, confirm: demo passes on the clean tree, fails on the patched tree, the
repository's tests pass with the patch; then run the quick check(s) against the patched copy (VERIF_REPO).
Prints one JSON object."""
import json, os, shutil, subprocess, sys, tempfile, time

def sh(cmd, **kw):
    return subprocess.run(cmd, capture_output=True, text=True, **kw)

def main():
    sd, prop = sys.argv[1], sys.argv[2]
    checks = sys.argv[3:] or [prop]
    out = dict(dir=sd, property=prop)
    d = tempfile.mkdtemp(prefix='seedrepo.', dir='/tmp')
    try:
        sh(['rsync', '-a', '--exclude', '.git', '--exclude', '_seed', '/repo/', d + '/'])
        env_clean = dict(os.environ, PYTRAPIC_SRC='/repo/src', PYTHONPATH='/repo/src')
        r = sh(['/venv/bin/python', os.path.join(sd, 'demo.py')], env=env_clean, timeout=600)
        out['demo_on_clean_rc'] = r.returncode
        a = sh(['patch', '-p1', '-i', os.path.abspath(os.path.join(sd, 'patch.diff'))], cwd=d)
        out['patch_applied'] = a.returncode == 0
        if a.returncode != 0:
            out['patch_error'] = (a.stdout + a.stderr)[-400:]
            print(json.dumps(out)); return
        env_p = dict(os.environ, PYTRAPIC_SRC=d + '/src', PYTHONPATH=d + '/src')
        r = sh(['/venv/bin/python', os.path.join(sd, 'demo.py')], env=env_p, timeout=600)
        out['demo_on_patched_rc'] = r.returncode
        out['demo_output'] = (r.stdout + r.stderr)[-500:]
        t = sh(['/venv/bin/python', '-m', 'pytest', '-q', '-rf', '-p', 'no:cacheprovider', 'test', '--deselect', 'test/test_cases.py::test_cases[full-constexpr_eval]', '--deselect', 'test/test_cases.py::test_cases[compact-constexpr_eval]'], cwd=d, env=dict(os.environ, PYTHONPATH=d + '/src'))
        out['tests_rc'] = t.returncode
        out['tests_tail'] = t.stdout.strip().splitlines()[-1:] if t.stdout.strip() else []
        if t.returncode != 0:
            # the constexpr-based tests are flaky under CPU load (1 s child budget): re-run the failed ones alone
            import re
            failed = re.findall(r'^FAILED (\S+)', t.stdout, re.M)
            still = []
            for tid in failed:
                ok = False
                for _ in range(4):
                    r2 = sh(['/venv/bin/python', '-m', 'pytest', '-q', '-p', 'no:cacheprovider', tid], cwd=d, env=dict(os.environ, PYTHONPATH=d + '/src'))
                    if r2.returncode == 0:
                        ok = True
                        break
                    time.sleep(2)
                if not ok:
                    still.append(tid)
            out['tests_failed_first_run'] = failed
            out['tests_still_failing_alone'] = still
            out['tests_rc'] = 1 if (still or not failed) else 0
        out['checks'] = {}
        for c in checks:
            t0 = time.time()
            r = sh(['/verif/check', c, 'quick'], env=dict(os.environ, VERIF_REPO=d, VERIF_OUT='/verif/scratch/alt'))
            vio = [l for l in r.stdout.splitlines() if l.startswith('VIOLATION')]
            out['checks'][c] = dict(rc=r.returncode, violation_lines=len(vio), wall_s=round(time.time() - t0), first=(r.stdout.split('first violations:')[1][:500] if 'first violations:' in r.stdout else ''))
    finally:
        shutil.rmtree(d, ignore_errors=True)
    print(json.dumps(out, indent=1))

main()
