#!/bin/bash
# evaluate every /verif/seeded/<Cxx-y> with the check of its property; results to scratch/seeded/<name>.json
mkdir -p /verif/scratch/seeded
for d in /verif/seeded/*; do
  n=$(basename $d); p=${n%%-*}
  [ -n "$1" ] && [[ "$n" != $1* ]] && continue
  [ -f /verif/scratch/seeded/$n.json ] && [ -z "$FORCE" ] && continue
  /verif/tools/seeded.py $d $p > /verif/scratch/seeded/$n.json 2>&1
  /venv/bin/python - "$n" <<'PY'
import json,sys
n=sys.argv[1]
try:
    d=json.load(open(f'/verif/scratch/seeded/{n}.json'))
    c=d.get('checks',{})
    print(n, 'demo clean/patched rc', d.get('demo_on_clean_rc'), d.get('demo_on_patched_rc'), 'tests rc', d.get('tests_rc'), {k:(v['rc'],v['violation_lines']) for k,v in c.items()}, flush=True)
except Exception as e:
    print(n,'ERR',e, flush=True)
PY
done
