#!/bin/bash
# tools/mut.sh <file-relative-to-repo> <python-expr old> <python-expr new> -- <check args...>
# Makes a scratch copy of /repo under /tmp, replaces one occurrence of OLD by NEW in FILE, runs ./check there, removes the copy.
set -u
file="$1"; old="$2"; new="$3"; shift 3; [ "$1" = "--" ] && shift
d=$(mktemp -d /tmp/mutrepo.XXXXXX)
rsync -a --exclude .git /repo/ "$d/"
/venv/bin/python - "$d/$file" "$old" "$new" <<'PY'
import sys
p,old,new=sys.argv[1:4]
s=open(p).read()
if s.count(old)<1: print("MUT: pattern not found"); sys.exit(3)
open(p,'w').write(s.replace(old,new,1))
PY
rc=$?
if [ $rc -eq 0 ]; then
  if [ "${MUT_TESTS:-0}" = "1" ]; then (cd "$d" && /venv/bin/python -m pytest -q -x -p no:cacheprovider test 2>&1 | tail -3); fi
  VERIF_OUT=/verif/scratch/alt VERIF_REPO="$d" /verif/check "$@" 2>&1 | grep -v "^  " | cut -c1-400 | head -${MUT_LINES:-12}
  echo "exit=${PIPESTATUS[0]}"
fi
rm -rf "$d"
