#!/venv/bin/python
"""(Re)generate known_findings/*.json and the 'finding:' lines of KNOWN_FINDINGS.txt from the table below.
'fixed:' lines and comments in KNOWN_FINDINGS.txt are preserved.  This tool is run by hand when a finding is
added; the checks only ever read the files."""
import json
from pathlib import Path

HERE = Path(__file__).resolve().parent.parent
H = "from stationeers_pytrapic.symbols import *\n"
NV = dict(append_version=False)
V_DEF = dict(NV)
V_NOINL = dict(NV, inline_functions=False)
V_TAIL = dict(NV, inline_functions=False, tail_call_optimization=True)
V_TAILPP = dict(NV, inline_functions=False, tail_call_optimization=True, use_push_pop_functions=True)


def prog(src, vectors, **kw):
    return dict(src=H + src, vectors=vectors, env_seeds=["w:0", "w:1"], stream="witness", **kw)


NOEV = dict(machine_event=None)
ANYTRACE = dict(monitor="trace")
DIFF = dict(monitor="option-differential")

S_FALL = "def f(a):\n    db.Setting = a\nf(d0.Temperature)\n"
S_FORTARGET = "while True:\n    yield_()\n    for i in range(3):\n        db.Setting = i\n    for i in range(2):\n        db.Mode = i\n"
S_ALIAS = "while True:\n    yield_()\n    x = d0.Temperature\n    y = x\n    x += 1\n    db.Setting = y\n    db.Mode = x\n"
S_FORLIST_CALL = "def f(a):\n    db.Setting = a\nwhile True:\n    yield_()\n    for e in [1, 2]:\n        f(e)\n        db.Mode = e\n    f(5)\n"
S_TAIL_VOID_VALUE = "def g(a):\n    db.Setting = a\n    return a + 1\ndef f(a):\n    db.Mode = a\n    g(a)\nwhile True:\n    yield_()\n    f(1)\n    f(2)\n    db.On = g(3)\n"
S_TAIL_OTHER = "def g(a):\n    db.Setting = a\ndef f(a):\n    g(a)\n    db.Mode = a\n    g(a + 1)\nwhile True:\n    yield_()\n    f(1)\n    f(2)\n    g(3)\n"
S_TAIL_EARLY = "def g(a):\n    db.Setting = a\ndef f(a):\n    if d0.Error:\n        return\n    db.Mode = a\n    g(a + 1)\ndef z(a):\n    db.Lock = a\nwhile True:\n    yield_()\n    f(1)\n    f(2)\n    g(3)\n    z(1)\n    z(2)\n"
S_INL_RESULT = "def a0():\n    if d2.Idle > 4:\n        return 34\n    return 20\ndef b0(p, q):\n    d3.Activate = p\n    a0()\n    d4.Horizontal = q\n    return p * 2 + q * 3\nwhile True:\n    yield_()\n    d1.Setting = b0(-1, 0.5)\n    for k in range(3):\n        d2.Color = b0(d4.Power, 5)\n"
S_LIST6 = "while True:\n    yield_()\n    db.Setting = [10, 11, 12, 13, 14, 15, 16][d0.Idle % 7]\n"
S_IFEXP = "while True:\n    yield_()\n    db.Setting = (d0.Temperature if d1.Error else [10, 11, 12, 13, 14, 15, 16][d0.Idle % 7])\n"
S_GLOBAL_CALL = "g = d0.Temperature + 1\ndef f():\n    global g\n    g = g + 1\n    return 5\nwhile True:\n    yield_()\n    db.Setting = g - f()\n    g = g * 2\n"
S_ENUM_REBIND = "g = d0.Temperature + 1\nwhile True:\n    yield_()\n    db.Setting = g + 4\n    if d0.Error:\n        g = Color.Red\n    else:\n        g = d1.Temperature\n"
S_INVERT = "db.Setting = ~d0.Setting\n"
S_UNDEF = "charge = lbn(HASH(\"StructureBattery\"), bat_name, LogicType.Ratio, LogicBatchMethod.Average)\ndb.Setting = charge\n"
S_HEX = "db.Setting = 1e22\n"
S_SETTINGS = "db.Settings = d0.Setting\n"
S_STRARG = "db.Setting = lb(\"HASH('StructureBattery')\", LogicType.Ratio, LogicBatchMethod.Average)\n"
S_STRUCT_REBIND = "x = Furnace(d2)\ndb.Setting = x.Import.Occupied\nx = 0\nwhile x < 3:\n    x += 1\n    db.Setting = x\n"

S_NAN_TEST = "while True:\n    yield_()\n    z = d0.Setting - d0.Setting\n    x = z / z\n    if 1 < x:\n        db.Setting = 1\n    else:\n        db.Setting = 2\n"

RA = {"in": ["ra-mismatch", "return-without-call"]}
FALL = {"in": ["fall-through", "jump-into-function", "return-without-call"]}

FINDINGS = [
    dict(
        id="KF-C01-test-on-nan-takes-the-body",
        property="C01",
        also=["C06"],
        trigger="test_compares_nan_at_run_time",
        what="'if a < b:' is emitted as 'bge a b <else>' (the negated comparison): with a NaN operand neither holds, so the chip runs the body although the comparison is false ('c = a < b; if c:' and the source take the else arm); same for while tests and the other five operators",
        signatures=dict(C01=[dict(monitor="trace", nan_in_test=True, machine_event=None)], C06=[dict(monitor="trace", nan_in_test=True, machine_event=None)]),
        witness=dict(C01=prog(S_NAN_TEST, [V_DEF])),
    ),
    dict(
        id="KF-C07-fallthrough",
        property="C07",
        also=["C01", "C02", "C13"],
        trigger="main_terminates_and_calls_function",
        what="top-level code that terminates runs on into the first function emitted after it (no terminator between main code and function bodies); the function's 'j ra' then restarts or loops the program - pinned by register_assignment.ref, function_arguments.ref, ...",
        signatures=dict(
            C07=[dict(monitor="region", event="fall-through", frm="main", to="first-function"), dict(monitor="region", event="jump-into-function", frm="main", to="first-function", labels="removed")],
            C01=[dict(monitor="trace", machine_event=FALL)],
            C02=[dict(DIFF, machine_event_a=FALL), dict(DIFF, machine_event_b=FALL)],
            C13=[dict(machine_event=FALL), dict(machine_event_a=FALL), dict(machine_event_b=FALL)],
        ),
        witness=dict(C07=prog(S_FALL, [V_NOINL]), C01=prog(S_FALL, [V_NOINL]), C02=prog(S_FALL, [V_DEF, V_NOINL])),
    ),
    dict(
        id="KF-C01-for-target-rebound",
        property="C01",
        also=["C02", "C06", "C04"],
        trigger="for_target_bound_more_than_once",
        what="a for-loop target that is bound more than once (second 'for i' reusing i, or i assigned elsewhere) reads a stale register - pinned by constant_array.ref / for_loop.ref",
        signatures=dict(C01=[dict(ANYTRACE, **NOEV)], C06=[dict(ANYTRACE, **NOEV)], C02=[dict(DIFF, machine_event_a=None, machine_event_b=None)], C04=[dict(monitor="shadow-tags")]),
        witness=dict(C01=prog(S_FORTARGET, [V_DEF])),
    ),
    dict(
        id="KF-C01-alias-of-mutated-variable",
        property="C01",
        also=["C02", "C06", "C04"],
        trigger=["alias_then_mutate_source", "bare_variable_argument"],
        what="'y = x' (or passing the bare variable x to an inlined function) emits no move: y shares x's register, so a later 'x += 1' changes y too",
        signatures=dict(C01=[dict(ANYTRACE, **NOEV)], C06=[dict(ANYTRACE, **NOEV)], C02=[dict(DIFF, machine_event_a=None, machine_event_b=None)], C04=[dict(monitor="shadow-tags")]),
        witness=dict(C01=prog(S_ALIAS, [V_DEF])),
    ),
    dict(
        id="KF-C06-for-list-body-clobbers-ra",
        property="C06",
        also=["C01", "C02"],
        trigger=["nested_for_list", "call_in_for_list_body", "return_in_for_list_body"],
        what="the body of 'for x in [..]' is entered with jal and left with 'j ra' without saving ra: a call (or another list loop, or a return) inside the body overwrites ra and the body never returns to the loop",
        signatures=dict(
            C06=[dict(monitor="shadow-stack", event=RA), dict(monitor="shadow-stack", event="sp-mismatch", callee="for-list-body")],
            C01=[dict(monitor="trace", machine_event=RA)],
            C02=[dict(DIFF, machine_event_a=RA), dict(DIFF, machine_event_b=RA)],
        ),
        witness=dict(C06=prog(S_FORLIST_CALL, [V_NOINL]), C01=prog(S_FORLIST_CALL, [V_NOINL])),
    ),
    dict(
        id="KF-C06-tail-call-void-into-value",
        property="C06",
        also=["C01", "C02"],
        trigger="void_function_ends_with_call_to_value_function",
        what="tail_call_optimization + use_push_pop_functions: a function without result whose last statement calls a function with a result jumps to it; the callee pushes its result, nobody pops it: sp grows by one per call",
        signatures=dict(
            C06=[dict(monitor="shadow-stack", event={"in": ["sp-mismatch", "sp-range"]}, tail=True, conv="pushpop")],
            C01=[dict(monitor="trace", machine_event={"in": ["sp-mismatch", "sp-range"]}, tail=True)],
            C02=[dict(DIFF, machine_event_a="sp-mismatch"), dict(DIFF, machine_event_b="sp-mismatch")],
        ),
        witness=dict(C06=prog(S_TAIL_VOID_VALUE, [V_TAILPP])),
    ),
    dict(
        id="KF-C06-tail-call-with-other-call",
        property="C06",
        also=["C01", "C02", "C07"],
        trigger="tail_call_candidate_with_other_call",
        what="tail_call_optimization: a function whose last statement is a call and that also makes another call loses its return address: the trailing 'j ra' is gone, so add_ra_instructions sees no return and emits no push ra / pop ra",
        signatures=dict(
            C06=[dict(monitor="shadow-stack", tail=True), dict(monitor="trace", tail=True)],
            C01=[dict(monitor="trace", tail=True)],
            C02=[dict(DIFF, tail_a=True), dict(DIFF, tail_b=True)],
            C07=[dict(monitor="region", tail=True), dict(monitor="termination", tail=True)],
        ),
        witness=dict(C06=prog(S_TAIL_OTHER, [V_TAIL])),
    ),
    dict(
        id="KF-C06-tail-call-with-early-return",
        property="C06",
        also=["C01", "C02", "C07"],
        trigger="tail_call_candidate_with_early_return",
        what="tail_call_optimization: an early 'return' jumps to the '<name>end' label, but the 'j ra' after that label is suppressed when the last statement is a tail call: control runs on into the next function or off the end of the program",
        signatures=dict(
            C06=[dict(monitor="shadow-stack", tail=True), dict(monitor="trace", tail=True)],
            C01=[dict(monitor="trace", tail=True)],
            C02=[dict(DIFF, tail_a=True), dict(DIFF, tail_b=True)],
            C07=[dict(monitor="region", tail=True), dict(monitor="termination", tail=True)],
        ),
        witness=dict(C06=prog(S_TAIL_EARLY, [V_TAIL]), C07=prog(S_TAIL_EARLY, [V_TAIL])),
    ),
    dict(
        id="KF-C04-inlined-result-register-lifetime",
        property="C04",
        also=["C01", "C02", "C06", "C13", "C07"],
        trigger="value_function_with_single_call_site_inside_function",
        what="a value function with one call site inside another function is inlined there; its result register lives in the main scope with a lifetime taken from source lines (definition .. call site), so a main-scope value that is live while the enclosing function runs (e.g. a loop counter) is given the same register and overwritten",
        signatures=dict(C04=[dict(monitor="shadow-tags", event="clobber")], C01=[dict(ANYTRACE, **NOEV)], C06=[dict(ANYTRACE, **NOEV)], C02=[dict(DIFF, machine_event_a=None, machine_event_b=None)], C13=[dict(monitor="module-differential", machine_event_a=None, machine_event_b=None), dict(ANYTRACE, **NOEV)], C07=[dict(monitor="termination", event="chip-keeps-running-after-source-ended", inline=True)]),  # C07: the overwritten value is a loop counter of terminating top-level code
        witness=dict(C01=prog(S_INL_RESULT, [V_DEF])),
    ),
    dict(
        id="KF-C01-constant-list-ge6-dynamic-index",
        property="C01",
        also=["C06", "C03"],
        trigger="const_list_ge6_dynamic_index",
        what="a constant list with 6 or more elements and a dynamic index is lowered to a jr jump table whose select picks the neighbour: [..][i] yields element i+1 for even i and i-1 for odd i - pinned by constant_array.ref",
        signatures=dict(C01=[dict(ANYTRACE, **NOEV)], C06=[dict(ANYTRACE, **NOEV)], C03=[dict(monitor="fold-differential")]),
        witness=dict(C01=prog(S_LIST6, [V_DEF])),
    ),
    dict(
        id="KF-C01-ifexp-else-arm-emitted-twice",
        property="C01",
        also=["C05", "C09", "C06", "C02"],
        trigger="ifexp_else_arm_emits_code",
        what="the else-arm of 'a if c else b' is gathered twice: its loads are emitted twice, and with a jump-table list in it the lbend label is defined twice",
        signatures=dict(C01=[dict(ANYTRACE)], C06=[dict(ANYTRACE)], C05=[dict(event="duplicate-label")], C09=[dict(monitor="loader", event="duplicate-label")], C02=[dict(DIFF)]),
        witness=dict(C09=dict(src=H + S_IFEXP, vectors=[V_DEF], stream="witness")),
    ),
    dict(
        id="KF-C01-global-read-before-modifying-call",
        property="C01",
        also=["C06"],
        trigger="global_read_in_expression_with_call_that_writes_it",
        what="in 'g - f()' where f assigns the global g, Python reads g before the call; the emitted code calls f first and then reads g's register",
        signatures=dict(C01=[dict(ANYTRACE, **NOEV)], C06=[dict(ANYTRACE, **NOEV)]),
        witness=dict(C01=prog(S_GLOBAL_CALL, [V_NOINL])),
    ),
    dict(
        id="KF-C01-name-rebound-to-enum-or-structure",
        property="C01",
        also=["C09", "C02", "C06"],
        trigger="name_bound_to_enum_or_structure_and_rebound",
        what="a variable that is assigned an enum member or a structure object in one place and a number elsewhere is entered into the structure table: every read of the name then denotes the enum member / device (e.g. 'bge d2 3 7'), whatever value the variable holds",
        signatures=dict(C01=[dict(ANYTRACE, **NOEV)], C06=[dict(ANYTRACE, **NOEV)], C02=[dict(DIFF, machine_event_a=None, machine_event_b=None)], C09=[dict(monitor="loader", event="operand-kind", token_class={"in": ["V:dev", "V:alias-dev"]})]),  # C01 incl. emitted-code-not-executable
        witness=dict(C01=prog(S_ENUM_REBIND, [V_DEF]), C09=dict(src=H + S_STRUCT_REBIND, vectors=[V_DEF], stream="witness")),
    ),
    dict(
        id="KF-C09-invert-emits-neg",
        property="C09",
        also=["C01"],
        trigger="invert_operator",
        what="the unary '~' operator emits the opcode 'neg', which IC10 does not have (the instruction is 'not') - pinned by binop.ref",
        signatures=dict(C09=[dict(monitor="loader", event="unknown-opcode", opcode="neg")], C01=[dict(monitor="trace", event="emitted-code-not-executable")]),
        witness=dict(C09=dict(src=H + S_INVERT, vectors=[V_DEF], stream="witness")),
    ),
    dict(
        id="KF-C09-undefined-name-empty-operand",
        property="C09",
        also=["C01"],
        trigger="undefined_name_read",
        what="reading a name that is never assigned compiles: the operand is emitted as an empty string (examples/intrinsics.py: 'lbn r0 HASH(..)  Average Ratio')",
        signatures=dict(C09=[dict(monitor="loader", event="operand-count")], C01=[dict(monitor="trace", event="emitted-code-not-executable")]),
        witness=dict(C09=dict(src=H + S_UNDEF, vectors=[V_DEF], stream="witness")),
    ),
    dict(
        id="KF-C09-hex-literal-longer-than-16-digits",
        property="C09",
        also=[],
        trigger=None,
        what="format_int prints every integer above 10000 as $HEX without a bound: integers of 2^64 and more (1e22, HASH(..) ** 3) become hex literals with more than 16 digits, which do not fit the chip's 64-bit parse",
        signatures=dict(C09=[dict(monitor="loader", event="bad-token", token_class="hex-too-long"), dict(monitor="literal-readback", event="literal-hex-too-long")]),
        witness=dict(C09=dict(src=H + S_HEX, vectors=[V_DEF], stream="witness", literal="1e22")),
    ),
    dict(
        id="KF-C09-unknown-logic-type-on-generic-device",
        property="C09",
        also=[],
        trigger="unknown_logic_type_on_generic_device",
        what="d0..d5/db accept any attribute name: 'db.Settings = x' (examples/stack.py) emits 's db Settings r2' although Settings is not a logic type",
        signatures=dict(C09=[dict(monitor="loader", event="unknown-symbol", token_class="T:ident")]),
        witness=dict(C09=dict(src=H + S_SETTINGS, vectors=[V_DEF], stream="witness")),
    ),
    dict(
        id="KF-C09-string-argument-emitted-verbatim",
        property="C09",
        also=[],
        trigger="string_literal_intrinsic_argument",
        what="a string literal passed to an intrinsic is emitted verbatim as an operand (examples/intrinsics.py passes \"HASH('StructureBattery')\" with single quotes, which is not an IC10 token)",
        signatures=dict(C09=[dict(monitor="loader", event="bad-token", token_class={"in": ["garbage", "repr"]})]),
        witness=dict(C09=dict(src=H + S_STRARG, vectors=[V_DEF], stream="witness")),
    ),
]

FINDINGS.append(
    dict(
        id="KF-C01-saved-ra-visible-in-user-stack",
        property="C01",
        also=["C02"],
        trigger="user_stack_address_outside_64_447",
        what="'push ra' saves return addresses in the chip's own stack from cell 0 upwards and arguments/results use the top cells: a program that reads stack[0..] itself (examples/loops.py sums stack[0..9]) sees the saved return address, and only when the enclosing function is not inlined",
        signatures=dict(C02=[dict(DIFF, machine_event_a=None, machine_event_b=None)]),
        witness=dict(C02=prog("def inner():\n    db.Mode = 1\ndef outer():\n    inner()\n    inner()\n    db.Setting = stack[0]\nwhile True:\n    yield_()\n    outer()\n", [V_DEF, V_NOINL])),
    )
)

FINDINGS.append(
    dict(
        id="KF-C04-lifetime-widened-to-innermost-loop-only",
        property="C04",
        also=["C01", "C02", "C06"],
        trigger="local_bound_outside_nested_loops_read_in_inner_loop",
        what="a function-local value (e.g. a parameter) that is read inside the inner of two nested loops gets a lifetime up to the end of the inner loop only; a temporary allocated later in the outer loop's body takes its register, and the next iteration of the outer loop reads the overwritten value (widening to the outermost loop would change the pinned hash_number result)",
        signatures=dict(C04=[dict(monitor="shadow-tags", event="clobber", across_scopes=False)], C01=[dict(ANYTRACE, **NOEV)], C06=[dict(ANYTRACE, **NOEV)], C02=[dict(DIFF, machine_event_a=None, machine_event_b=None)]),
        witness=dict(C04=prog("def f(a, b):\n    w = 0\n    while w < 2:\n        w += 1\n        v = 0\n        while v < 2:\n            v += 1\n            if b > 1.5:\n                db.Mode = b\n        if (1.5 + d2.Pressure) == a:\n            db.Setting = w\nwhile True:\n    yield_()\n    f(d1.Pressure, d1.Charge + 0.5)\n    f(1, 2)\n", [V_NOINL])),
    )
)
FINDINGS.append(
    dict(
        id="KF-C04-captured-reference-id-register",
        property="C04",
        also=["C01"],
        trigger="stack_object_from_register_ref_id",
        what="Stack(ref_id=<value held in a register>) captures the register inside the stack object; uses of the object are not uses of the variable for the lifetime analysis, so 'getd r1 r1 63' overwrites the id that the following 'putd r1 ..' needs - pinned by constexpr_eval.ref",
        signatures=dict(C04=[dict(monitor="shadow-tags", event="clobber")], C01=[dict(ANYTRACE)]),
        witness=dict(C04=prog("def build():\n    pid = ElectronicsPrinters.Minimum.ReferenceId\n    ps = Stack(ref_id=pid)\n    ps[ps[63] + 1] = 7\nwhile True:\n    yield_()\n    if d2.Setting:\n        build()\n", [V_DEF])),
    )
)

C05OPT = dict(append_version=False, original_code_as_comment=False, generated_comments=False, inline_functions=False, compact=False, tail_call_optimization=False, use_push_pop_functions=False)
FINDINGS.append(
    dict(
        id="KF-C05-label-collision-after-mangling",
        property="C05",
        also=[],
        trigger="label_collision_after_mangling",
        what="function labels are the qualified name with '_' -> '.', early returns use '<label>end', generated labels are lb<kind><n>: functions f and fend, a_b next to module a's b, or a function called lbwhile1 give one label defined twice / a jump that resolves to the wrong definition",
        signatures=dict(C05=[dict(monitor="loader", event="duplicate-label"), dict(monitor="text-relation"), dict(monitor="lock-step")]),
        witness=dict(C05=dict(src=H + "def f(a):\n    if a > 1:\n        return\n    db.Setting = a\ndef fend(a):\n    db.Mode = a\nwhile True:\n    yield_()\n    f(d0.Temperature)\n    f(2)\n    fend(1)\n    fend(2)\n", options=C05OPT, env_seeds=["w:0", "w:1"], stream="witness")),
    )
)
FINDINGS.append(
    dict(
        id="KF-C05-function-named-like-logic-type",
        property="C05",
        also=[],
        trigger="function_named_like_logic_type",
        what="a user function whose name is also a logic type / slot type / batch mode name (def On(), def Setting()): remove_labels replaces the label token everywhere, so 's db On 1' becomes 's db 7 1' (7 = line of the function), while the labelled output keeps the ambiguous name",
        signatures=dict(C05=[dict(monitor="lock-step"), dict(monitor="text-relation")]),
        witness=dict(C05=dict(src=H + "def On(a):\n    db.On = a\nwhile True:\n    yield_()\n    On(d0.Error)\n    On(1)\n", options=C05OPT, env_seeds=["w:0", "w:1"], stream="witness")),
    )
)

FINDINGS.append(
    dict(
        id="KF-C08-folding-depends-on-output-mode",
        property="C08",
        also=[],
        trigger=["math_function_of_hash", "str_as_operator_operand"],
        what="in verbose mode HASH(\"..\") is carried as the string 'HASH(\"..\")', which math.sin/cos/atan2/... cannot take, so sin(HASH(\"x\")) is folded to a literal only with compact on, and STR(\"AB\") + 1 is an error in verbose mode but compiles in compact mode: the two outputs differ in instructions (and in register pressure: one mode may run out of registers), not only in tokens",
        signatures=dict(C08=[dict(monitor="compact-differential", event={"in": ["line-count-differs", "instruction-shape-differs", "only-one-mode-compiles"]})]),
        witness=dict(C08=dict(src=H + "db.Setting = atan2(HASH(\"O2\"), 1.5)\ndb.Mode = d0.Setting\n", options=dict(append_version=False), stream="witness")),
    )
)

FINDINGS.append(
    dict(
        id="KF-C08-name-wrapped-in-double-quotes",
        property="C08",
        also=[],
        trigger="string_begins_and_ends_with_double_quote",
        what="in verbose mode a hash is carried as the text 'HASH(\"<name>\")' and unwrapped again when an operator is folded; compute_hash also strips one pair of surrounding double quotes, so a name that itself begins and ends with a double quote (or is a single '\"') loses them: HASH('\"') * 3 is 'Name cannot be an empty string' in verbose mode and a number in compact mode",
        signatures=dict(C08=[dict(monitor="compact-differential", event={"in": ["only-one-mode-compiles", "token-value-differs"]})]),
        witness=dict(C08=dict(src=H + "db.Setting = HASH(\"\\\"\") * 3\n", options=dict(append_version=False), stream="witness")),
    )
)

FINDINGS.append(
    dict(
        id="KF-C08-line-separator-in-string",
        property="C08",
        also=["C09"],
        trigger="string_with_line_separator",
        what="the finished text is re-split with str.splitlines() (remove_unused_labels, remove_labels, version note): a device name or HASH/STR string containing a form feed, U+2028, U+0085 ... is cut into two lines, so HASH(\"a<FF>b\") becomes 'HASH(\"a' + newline + 'b\")' - other text, other hash, unloadable line",
        signatures=dict(C08=[dict(monitor="compact-differential")], C09=[dict(monitor="loader")]),
        witness=dict(C08=dict(src=H + "db.Setting = HASH(\"a long device name\x0cwith a form feed\")\ndb.Mode = 1\n", options=dict(append_version=False), stream="witness")),
    )
)

FINDINGS.append(
    dict(
        id="KF-C12-module-constexpr-calls-sibling",
        property="C12",
        also=[],
        trigger="module_constexpr_calls_sibling_constexpr",
        what="constexpr functions of a library module are evaluated inside a generated 'class <module>:' wrapper; a constexpr function that calls another constexpr function of the same module fails there with NameError (class scope is not visible from the function body), although the same pair works in the main file",
        signatures=dict(C12=[dict(monitor="constexpr-eval", event="error-for-evaluable-call", exc="NameError")]),
        witness=dict(C12=dict(defs=["@constexpr\ndef cx_inner(a):\n    return a + 1\n@constexpr\ndef cx_nested(a):\n    return cx_inner(a) * 2\n"], calls=[dict(text="cx_nested(2)", position="assign")], options=dict(append_version=False), stream="witness", module=True)),
    )
)

C16 = dict(
    id="KF-C16-intrinsic-output-register",
    property="C16",
    also=[],
    what="intrinsics.py: ext/ins/rmap yield no result (destination passed as first argument); bdns/bdnsal/bdse/bdseal/brdns/brdse yield a result and take only one argument (generated file; repair = regenerate with a fixed generator, not a small patch)",
    signatures=dict(C16=[{"monitor": "table-walk", "event": "wrapper-output-mismatch", "opcode": {"in": ["ext", "ins", "rmap", "bdns", "bdnsal", "bdse", "bdseal", "brdns", "brdse"]}}]),
    trigger=None,
    witness={"C16": {"stream": "intrinsics"}},
)
FINDINGS.append(C16)


def main():
    kd = HERE / "known_findings"
    kd.mkdir(exist_ok=True)
    for p in kd.glob("*.json"):
        p.unlink()
    lines = []
    for f in FINDINGS:
        (kd / f"{f['id']}.json").write_text(json.dumps(f, indent=1) + "\n")
        also = f" also={','.join(f['also'])}" if f.get("also") else ""
        lines.append(f"finding: property={f['property']} id={f['id']}{also} {f['what']}")
    txt = HERE / "KNOWN_FINDINGS.txt"
    old = txt.read_text().splitlines() if txt.exists() else []
    keep = [l for l in old if not l.startswith("finding:")]
    head = [l for l in keep if l.startswith("#")]
    fixed = [l for l in keep if l.startswith("fixed:")]
    txt.write_text("\n".join(head + lines + fixed) + "\n")
    print(len(FINDINGS), "findings written;", len(fixed), "fixed lines kept")


if __name__ == "__main__":
    main()
