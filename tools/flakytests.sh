#!/bin/bash
# tools/flakytests.sh <seeded-name>... : on an idle machine, apply the patch to a scratch copy and run the five load-sensitive
# tests (1 s constexpr child budget) that tools/seeded.py could not get through under load; prints "<name> flaky5 rc=<rc>"
for n in "$@"; do
  d=$(mktemp -d /tmp/flk.XXXXXX)
  rsync -a --exclude .git /repo/ $d/
  (cd $d && patch -p1 -s -i /verif/seeded/$n/patch.diff) || { echo "$n PATCH-FAILED"; rm -rf $d; continue; }
  rc=1
  for try in 1 2 3; do
    (cd $d && PYTHONPATH=$d/src /venv/bin/python -m pytest -q -p no:cacheprovider test -k "constexpr or sorter" > $d/out.txt 2>&1); rc=$?
    [ $rc -eq 0 ] && break
  done
  echo "$n flaky5 rc=$rc $(tail -1 $d/out.txt)"
  rm -rf $d
done
