#!/bin/bash
# run the repository's baseline suite with the guard off; print summary (constexpr_eval is flaky under load in the baseline)
cd /repo && env -u PYTRAPIC_VERIF /venv/bin/python -m pytest -q -p no:cacheprovider --timeout=900 --continue-on-collection-errors 2>&1 | tail -5
