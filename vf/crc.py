"""Independent bitwise CRC-32 (IEEE 802.3, reflected), no table from zlib.

Used as the oracle for HASH("...") everywhere in the harness.  `selfcheck`
compares with zlib on a few vectors; a mismatch is a harness inconsistency.
"""

_POLY = 0xEDB88320


def _make_table():
    t = []
    for i in range(256):
        c = i
        for _ in range(8):
            c = (c >> 1) ^ _POLY if c & 1 else c >> 1
        t.append(c)
    return t


_TABLE = _make_table()


def crc32_unsigned(data: bytes) -> int:
    c = 0xFFFFFFFF
    for b in data:
        c = _TABLE[(c ^ b) & 0xFF] ^ (c >> 8)
    return c ^ 0xFFFFFFFF


def crc32_bitwise(data: bytes) -> int:
    """Slow bit-at-a-time variant, used only by the self check."""
    c = 0xFFFFFFFF
    for b in data:
        c ^= b
        for _ in range(8):
            c = (c >> 1) ^ _POLY if c & 1 else c >> 1
    return c ^ 0xFFFFFFFF


def hash_signed(s: str) -> int:
    """HASH("s") of the game: CRC-32 of the UTF-8 bytes folded to signed 32 bit."""
    v = crc32_unsigned(s.encode("utf-8", "surrogatepass"))
    return v - (1 << 32) if v & 0x80000000 else v


def str_pack(s: str) -> int:
    """STR("s"): big-endian packing of the characters' code points, 8 bits each."""
    v = 0
    for ch in s:
        v = (v << 8) | ord(ch)
    return v


def selfcheck():
    import zlib

    vecs = [b"", b"a", b"123456789", b"StructureFurnace", bytes(range(256)), "Pötätös \U0001F600".encode()]
    for v in vecs:
        z = zlib.crc32(v) & 0xFFFFFFFF
        assert crc32_unsigned(v) == z == crc32_bitwise(v), v
    assert crc32_unsigned(b"123456789") == 0xCBF43926
    assert hash_signed("StructureFurnace") == 1947944864
    assert hash_signed("StructureLargeRocketGasFuelTank") == -988382953
    assert str_pack("Day") == 0x446179
    return True
