"""Reference IC10 machine with monitors (dynamic half of the sanitizer).

Monitors: effect recorder, shadow call stack (ra / sp), shadow register tags,
region / fall-through monitor, divergence (state-cycle) detector, step/effect
caps.  A run stops at the first monitor event; nothing after an event is judged.
"""
import math

from . import enums as E
from . import tok
from .crc import hash_signed, str_pack
from .ic10_arith import BIN, CMP, TRI, UN
from .ic10_isa import ISA, Program


class Unmodelled(Exception):
    """opcode / operand the machine cannot execute: the case is inconclusive."""


class _Stop(Exception):
    pass


_POS = {}


def _enum_value(name, kind):
    """Bare enum name in an operand position (pinned snapshot first, then the live table)."""
    key = (name, kind)
    if key not in _POS:
        v = E.positional(kind, "pinned").get(name)
        if v is None:
            v = E.positional(kind, "live").get(name)
        _POS[key] = v
    return _POS[key]


_DOT = None


def _dotted(name):
    global _DOT
    if _DOT is None:
        _DOT = dict(E.dotted("live"))
        _DOT.update(E.dotted("pinned"))
    return _DOT.get(name)


class VM:
    STACK = 512

    def __init__(self, prog, env, funcs=None, max_steps=200000, max_effects=200, meta=None, soft=False, detect_divergence=True):
        """prog: Program or code text.  funcs: {entry line: dict(name, nargs, nret, pushpop)}.
        meta: per text line None or dict(ins=[virt|None..], out=virt|None, pins=[..], pout=..) for the tag monitor."""
        if isinstance(prog, str):
            prog = Program(prog)
        self.prog = prog
        self.env = env
        self.lines = prog.lines
        self.n = len(self.lines)
        self.labels = prog.labels
        self.funcs = funcs or {}
        self.entries = set(self.funcs)
        self.first_entry = min(self.entries) if self.entries else None
        self.meta = meta
        self.max_steps = max_steps
        self.max_effects = max_effects
        self.detect_divergence = detect_divergence
        self.soft = soft
        self.path = None  # set to a list to record the executed text line numbers (lock-step comparisons)
        self.path_limit = 3000
        self.r = [0.0] * 18
        self.stack = [0.0] * self.STACK
        self.sh = 0
        self.pc = 0
        self.alias = {}
        self.defs = {}
        self.effects = []
        self.events = []
        self.shadow = []
        self.steps = 0
        self.seen = set()
        self.tag = {}
        self.stat = dict(calls=0, returns=0, tail_calls=0, max_depth=0, tag_reads=0, untagged_reads=0, back_jumps=0, pushes=0, pops=0)
        self.status = None
        self.in_func = []  # stack of function entries we are inside (for tail-call recognition)
        self._dec = [self._decode(t) if t is not None else None for t in self.lines]

    # ------------------------------------------------------------------ decode
    def _operand(self, t, kind):
        """-> ('c', float) | ('r', idx) | ('n', name) unresolved alias/define (looked up at run time)"""
        i = tok.reg_index(t)
        if i is not None:
            return ("r", i)
        num = tok.parse_number(t)
        if num is not None:
            return ("c", float(num[0]))
        if tok.is_hash(t):
            return ("c", float(hash_signed(t[6:-2])))
        if tok.is_str(t):
            return ("c", float(str_pack(t[5:-2])))
        if t in self.labels and kind in ("V", "J", "O", "I"):
            return ("c", float(self.labels[t]))
        if kind in ("T", "S", "B", "M"):
            v = _enum_value(t, kind)
            if v is not None:
                return ("c", float(v))
        v = _dotted(t)
        if v is not None:
            return ("c", float(v))
        if t in self.prog.aliases or t in self.prog.defines:
            return ("n", t)
        if t in self.labels:
            return ("c", float(self.labels[t]))
        if kind in ("T", "S", "B", "M") and tok.is_ident(t):
            return ("k", t)  # unknown logic-type name: keep symbolic (both sides would)
        if kind in ("V", "I") and tok.is_ident(t):
            # bare enum name in a value position: usable only if unambiguous across the positional enums
            vals = {v for v in (_enum_value(t, k) for k in ("T", "S", "B", "M")) if v is not None}
            if len(vals) == 1:
                return ("c", float(vals.pop()))
        raise Unmodelled(f"operand {t!r}")

    def _device(self, t):
        if tok.is_device(t):
            return ("d", t.split(":")[0])
        if t in self.prog.aliases:
            return ("n", t)
        return self._operand(t, "V")

    def _decode(self, toks):
        op = toks[0]
        sig = ISA.get(op)
        if sig is None or len(sig) != len(toks) - 1:
            return ("bad", toks)
        ops = []
        for k, t in zip(sig, toks[1:]):
            if k in ("D", "A"):
                ops.append(self._device(t) if k == "D" else ("t", t))
            elif k == "N":
                ops.append(("t", t))
            else:
                ops.append(self._operand(t, k))
        h = getattr(self, "op_" + op, None)
        if h is None:
            if op in BIN:
                h = self._bin
            elif op in UN:
                h = self._un
            elif op in TRI:
                h = self._tri
            elif op[0] == "b" or op[0:2] == "br":
                h = self._branch
            else:
                return ("unmodelled", toks)
        return (h, op, ops)

    # ------------------------------------------------------------------ values
    def val(self, o):
        k = o[0]
        if k == "c":
            return o[1]
        if k == "r":
            return self.r[o[1]]
        if k == "n":
            t = o[1]
            for _ in range(8):
                if t in self.alias:
                    t = self.alias[t]
                else:
                    break
            if t in self.defs:
                return self.defs[t]
            i = tok.reg_index(t)
            if i is not None:
                return self.r[i]
            raise Unmodelled(f"unresolved name {o[1]!r}")
        if k == "k":
            return o[1]
        raise Unmodelled(f"value of {o!r}")

    def key(self, o):
        v = self.val(o)
        if isinstance(v, float) and v == int(v):
            return int(v)
        return v

    def reg(self, o):
        if o[0] == "r":
            return o[1]
        if o[0] == "n":
            t = o[1]
            for _ in range(8):
                if t in self.alias:
                    t = self.alias[t]
            i = tok.reg_index(t)
            if i is not None:
                return i
        raise Unmodelled(f"dest {o!r}")

    def dev(self, o):
        if o[0] == "d":
            return o[1]
        if o[0] == "n":
            t = o[1]
            for _ in range(8):
                if t in self.alias:
                    t = self.alias[t]
            if tok.is_device(t):
                return t
            i = tok.reg_index(t)
            if i is not None:
                return f"ref:{_fmt(self.r[i])}"
            if t in self.defs:
                return f"ref:{_fmt(self.defs[t])}"
            raise Unmodelled(f"device {o!r}")
        return f"ref:{_fmt(self.val(o))}"

    def addr(self, o):
        v = self.val(o)
        if v != v or abs(v) == math.inf:
            self.event("stack-address", self.pc, v)
        a = int(v)
        if not 0 <= a < self.STACK:
            self.event("stack-address", self.pc, a)
        return a

    # ------------------------------------------------------------------ monitors
    def event(self, kind, *info, **sig):
        """Record a monitor event.  Diagnostic events (shadow stack, region, tags) stop the run unless the
        machine was created with soft=True, in which case execution continues exactly as the chip would;
        machine errors (bad stack address / jump target / sp) always stop: the chip itself would halt."""
        if len(self.events) < 8:
            self.events.append(dict(monitor=_MON.get(kind, "machine"), event=kind, pc=self.pc, effects_before=len(self.effects), info=list(info), **sig))
        if self.soft and kind in _SOFT:
            return
        self.status = "machine-error" if kind in _HARD else "event"
        raise _Stop()

    def effect(self, *e):
        self.effects.append(e)
        self.seen.clear()
        if len(self.effects) >= self.max_effects:
            self.status = "effects"
            raise _Stop()

    def poke(self, a, v):
        old = self.stack[a]
        if old != v or (old != old) != (v != v):
            self.sh ^= hash((a, old)) ^ hash((a, v))
            self.stack[a] = v

    # ------------------------------------------------------------------ run
    def run(self):
        lines = self._dec
        n = self.n
        meta = self.meta
        entries = self.entries
        try:
            while True:
                pc = self.pc
                if pc >= n or pc < 0:
                    self.status = "end"
                    break
                self.steps += 1
                if self.steps > self.max_steps:
                    self.status = "steps"
                    break
                d = lines[pc]
                seq = True
                if d is None:
                    npc = pc + 1
                else:
                    if self.path is not None and len(self.path) < self.path_limit:
                        self.path.append(pc)
                    h = d[0]
                    if h == "bad":
                        raise Unmodelled(f"not loadable: {d[1]}")
                    if h == "unmodelled":
                        raise Unmodelled(f"no semantics for {d[1][0]}")
                    m = meta[pc] if meta is not None else None
                    if m is not None:
                        self._tag_pre(m)
                    npc = h(d[1], d[2])
                    if m is not None:
                        self._tag_post(m)
                    if npc is None:
                        npc = pc + 1
                    else:
                        seq = False
                        if npc <= pc:
                            self._back(npc)
                if seq and entries and npc in entries:
                    self.event("fall-through", self.funcs[npc].get("name"), "first" if npc == self.first_entry else "other", frm=_where(self, pc), to="first-function" if npc == self.first_entry else "later-function")
                self.pc = npc
        except _Stop:
            pass
        return self.status

    def _back(self, target):
        self.stat["back_jumps"] += 1
        if not self.detect_divergence:
            return
        st = (target, tuple(self.r), self.sh, len(self.shadow))
        if st in self.seen:
            self.status = "divergence"
            self.pc = target
            raise _Stop()
        self.seen.add(st)

    def _tag_pre(self, m):
        tag = self.tag
        for v, p in zip(m["ins"], m["pins"]):
            if v is not None and p is not None:
                self.stat["tag_reads"] += 1
                tg = tag.get(p)
                if tg is None:
                    self.stat["untagged_reads"] += 1
                elif tg[0] != v:
                    self.event("clobber", p, v, tg[0], reader=dict(owner=m.get("owner"), lineno=m.get("lineno"), op=m.get("op")), writer=dict(owner=tg[2], lineno=tg[3], op=tg[4], pc=tg[1]))

    def _tag_post(self, m):
        v, p = m.get("out"), m.get("pout")
        if v is not None and p is not None:
            self.tag[p] = (v, self.pc, m.get("owner"), m.get("lineno"), m.get("op"))

    # ------------------------------------------------------------------ handlers
    def _bin(self, op, o):
        self.r[self.reg(o[0])] = float(BIN[op](self.val(o[1]), self.val(o[2])))

    def _un(self, op, o):
        self.r[self.reg(o[0])] = float(UN[op](self.val(o[1])))

    def _tri(self, op, o):
        self.r[self.reg(o[0])] = float(TRI[op](self.val(o[1]), self.val(o[2]), self.val(o[3])))

    def op_select(self, op, o):
        self.r[self.reg(o[0])] = self.val(o[2]) if self.val(o[1]) != 0 else self.val(o[3])

    def op_sapz(self, op, o):
        self.r[self.reg(o[0])] = TRI["sap"](self.val(o[1]), 0.0, self.val(o[2]))

    def op_snaz(self, op, o):
        self.r[self.reg(o[0])] = TRI["sna"](self.val(o[1]), 0.0, self.val(o[2]))

    def _target(self, o, rel):
        v = self.val(o)
        if v != v or abs(v) == math.inf:
            self.event("jump-target", v)
        t = int(v)
        return self.pc + t if rel else t

    def op_j(self, op, o):
        if o[0] == ("r", 17):
            return self._ret()
        t = self._target(o[0], False)
        self._enter_check(t, call=False)
        return t

    def op_jr(self, op, o):
        return self._target(o[0], True)

    def op_jal(self, op, o):
        t = self._target(o[0], False)
        self._call(t)
        return t

    def _call(self, t):
        npc = self.pc + 1
        self.r[17] = float(npc)
        if t not in self.entries:
            # pseudo call (body of `for x in [..]`): such a body is never re-entered while active, so a frame
            # for the same body still on the shadow stack was abandoned by a `break` (a plain jump out of the body)
            sh = self.shadow
            for k in range(len(sh) - 1, -1, -1):
                if sh[k][2] in self.entries:
                    break
                if sh[k][2] == t:
                    del sh[k:]
                    self.stat["abandoned_pseudo_frames"] = self.stat.get("abandoned_pseudo_frames", 0) + 1
                    break
        self.shadow.append((npc, self.r[16], t))
        self.stat["calls"] += 1
        if len(self.shadow) > self.stat["max_depth"]:
            self.stat["max_depth"] = len(self.shadow)
        if len(self.shadow) > 64:
            self.event("call-depth", len(self.shadow))

    def _ret(self):
        tgt = self.r[17]
        if not self.shadow:
            self.event("return-without-call", tgt, where=_where(self, self.pc))
            if tgt != tgt or abs(tgt) == math.inf:
                self.event("jump-target", tgt)
            return int(tgt)
        exp_pc, sp0, callee = self.shadow.pop()
        while tgt != exp_pc and callee not in self.entries and self.shadow:
            # frames of for-list bodies left by `break` carry no obligation: skip them (never a function frame)
            self.stat["abandoned_pseudo_frames"] = self.stat.get("abandoned_pseudo_frames", 0) + 1
            exp_pc, sp0, callee = self.shadow.pop()
        self.stat["returns"] += 1
        if tgt != exp_pc:
            self.event("ra-mismatch", tgt, exp_pc, callee=self._fname(callee), where=_where(self, self.pc))
            if tgt != tgt or abs(tgt) == math.inf:
                self.event("jump-target", tgt)
            return int(tgt)
        f = self.funcs.get(callee)
        if f is not None and f.get("nargs") is not None:
            want = sp0 + ((f["nret"] - f["nargs"]) if f.get("pushpop") else 0)
            if self.r[16] != want:
                self.event("sp-mismatch", self.r[16], want, callee=f.get("name"), convention="pushpop" if f.get("pushpop") else "getput")
        elif f is None:
            if self.r[16] != sp0:
                self.event("sp-mismatch", self.r[16], sp0, callee="for-list-body", convention="none")
        t = int(tgt)
        if t in self.entries:
            # the call was the last instruction of its region: the return address is the entry of the function that
            # follows, i.e. control flows sequentially from the caller's region into that function
            self.event("fall-through", self.funcs[t].get("name"), "first" if t == self.first_entry else "other", frm=_where(self, t - 1), to="first-function" if t == self.first_entry else "later-function")
        return t

    def _fname(self, line):
        f = self.funcs.get(line)
        return f.get("name") if f else "for-list-body"

    def _enter_check(self, t, call):
        """jump (not jal) landing exactly on a function entry: tail call if we are inside a call, else illegal entry."""
        if t in self.entries:
            # frames of for-list bodies (left behind by `break`) are not calls of a function
            if any(fr[2] in self.entries for fr in self.shadow):
                self.stat["tail_calls"] += 1
            else:
                self.event("jump-into-function", self.funcs[t].get("name"), frm=_where(self, self.pc), to="first-function" if t == self.first_entry else "later-function")
        elif self.entries:
            # a plain jump never leaves the region it is in, except to an entry (tail call) - an early return that
            # lands on another function's exit label does
            a, b = _where(self, self.pc), _where(self, t)
            if a != b and 0 <= t < self.n:
                self.event("jump-into-function", b, frm=a, to="inside-main" if b == "main" else "inside-function")

    def _branch(self, op, o):
        rel = op.startswith("br")
        core = op[2:] if rel else op[1:]
        link = core.endswith("al")
        if link:
            core = core[:-2]
        if core in ("dse", "dns"):
            present = self.env.read(("present", self.dev(o[0]))) != 0
            take = present == (core == "dse")
            tgt = o[1]
        elif core == "nan":
            x = self.val(o[0])
            take = x != x
            tgt = o[1]
        elif core in CMP:
            take = CMP[core](self.val(o[0]), self.val(o[1]))
            tgt = o[2]
        elif core[-1] == "z" and core[:-1] in CMP:
            take = CMP[core[:-1]](self.val(o[0]), 0.0)
            tgt = o[1]
        elif core in ("ap", "na"):
            take = bool(TRI["s" + core](self.val(o[0]), self.val(o[1]), self.val(o[2])))
            tgt = o[3]
        elif core in ("apz", "naz"):
            take = bool(TRI["s" + core[:-1]](self.val(o[0]), 0.0, self.val(o[1])))
            tgt = o[2]
        else:
            raise Unmodelled(op)
        if not take:
            return None
        t = self._target(tgt, rel)
        if link:
            self._call(t)
        else:
            self._enter_check(t, call=False)
        return t

    def op_sdse(self, op, o):
        self.r[self.reg(o[0])] = float(self.env.read(("present", self.dev(o[1]))) != 0)

    def op_sdns(self, op, o):
        self.r[self.reg(o[0])] = float(self.env.read(("present", self.dev(o[1]))) == 0)

    def op_l(self, op, o):
        self.r[self.reg(o[0])] = self.env.read(("l", self.dev(o[1]), self.key(o[2])))

    def op_s(self, op, o):
        v = self.val(o[2])
        k = ("l", self.dev(o[0]), self.key(o[1]))
        self.env.write(k, v)
        self.effect("s", k[1], k[2], v)

    def op_ls(self, op, o):
        self.r[self.reg(o[0])] = self.env.read(("ls", self.dev(o[1]), self.key(o[2]), self.key(o[3])))

    def op_ss(self, op, o):
        v = self.val(o[3])
        k = ("ls", self.dev(o[0]), self.key(o[1]), self.key(o[2]))
        self.env.write(k, v)
        self.effect("ss", k[1], k[2], k[3], v)

    def op_lr(self, op, o):
        self.r[self.reg(o[0])] = self.env.read(("lr", self.dev(o[1]), self.key(o[2]), self.key(o[3])))

    def op_lb(self, op, o):
        self.r[self.reg(o[0])] = self.env.read(("lb", self.key(o[1]), None, self.key(o[2]), self.key(o[3])))

    def op_lbn(self, op, o):
        self.r[self.reg(o[0])] = self.env.read(("lb", self.key(o[1]), self.key(o[2]), self.key(o[3]), self.key(o[4])))

    def op_lbs(self, op, o):
        self.r[self.reg(o[0])] = self.env.read(("lbs", self.key(o[1]), None, self.key(o[2]), self.key(o[3]), self.key(o[4])))

    def op_lbns(self, op, o):
        self.r[self.reg(o[0])] = self.env.read(("lbs", self.key(o[1]), self.key(o[2]), self.key(o[3]), self.key(o[4]), self.key(o[5])))

    def op_sb(self, op, o):
        v = self.val(o[2])
        h, k = self.key(o[0]), self.key(o[1])
        for m in range(4):
            self.env.write(("lb", h, None, k, m), v)
        self.effect("sb", h, k, v)

    def op_sbn(self, op, o):
        v = self.val(o[3])
        h, n, k = self.key(o[0]), self.key(o[1]), self.key(o[2])
        for m in range(4):
            self.env.write(("lb", h, n, k, m), v)
        self.effect("sbn", h, n, k, v)

    def op_sbs(self, op, o):
        v = self.val(o[3])
        h, s, k = self.key(o[0]), self.key(o[1]), self.key(o[2])
        for m in range(4):
            self.env.write(("lbs", h, None, s, k, m), v)
        self.effect("sbs", h, s, k, v)

    def op_get(self, op, o):
        d = self.dev(o[1])
        a = self.addr(o[2])
        self.r[self.reg(o[0])] = self.stack[a] if d == "db" else self.env.read(("stk", d, a))

    def op_getd(self, op, o):
        a = self.addr(o[2])
        self.r[self.reg(o[0])] = self.env.read(("stk", f"ref:{_fmt(self.val(o[1]))}", a))

    def op_put(self, op, o):
        d = self.dev(o[0])
        a = self.addr(o[1])
        v = self.val(o[2])
        if d == "db":
            self.poke(a, v)
        else:
            self.env.write(("stk", d, a), v)
            self.effect("put", d, a, v)

    def op_putd(self, op, o):
        d = f"ref:{_fmt(self.val(o[0]))}"
        a = self.addr(o[1])
        v = self.val(o[2])
        self.env.write(("stk", d, a), v)
        self.effect("put", d, a, v)

    def op_poke(self, op, o):
        self.poke(self.addr(o[0]), self.val(o[1]))

    def op_push(self, op, o):
        sp = self.r[16]
        if sp != int(sp) or not 0 <= sp < self.STACK:
            self.event("sp-range", sp)
        self.poke(int(sp), self.val(o[0]))
        self.r[16] = sp + 1
        self.stat["pushes"] += 1

    def op_pop(self, op, o):
        sp = self.r[16] - 1
        if sp != int(sp) or not 0 <= sp < self.STACK:
            self.event("sp-range", sp)
        self.r[16] = sp
        self.r[self.reg(o[0])] = self.stack[int(sp)]
        self.stat["pops"] += 1

    def op_peek(self, op, o):
        sp = self.r[16] - 1
        if sp != int(sp) or not 0 <= sp < self.STACK:
            self.event("sp-range", sp)
        self.r[self.reg(o[0])] = self.stack[int(sp)]

    def op_yield(self, op, o):
        self.effect("yield")
        self.env.advance()

    def op_sleep(self, op, o):
        self.effect("sleep", self.val(o[0]))
        self.env.advance()

    def op_hcf(self, op, o):
        self.effects.append(("hcf",))
        self.status = "hcf"
        raise _Stop()

    def op_alias(self, op, o):
        self.alias[o[0][1]] = o[1][1]

    def op_define(self, op, o):
        self.defs[o[0][1]] = self.val(o[1])

    def op_clr(self, op, o):
        self.effect("clr", self.dev(o[0]))

    def op_clrd(self, op, o):
        self.effect("clr", f"ref:{_fmt(self.val(o[0]))}")

    def op_rand(self, op, o):
        raise Unmodelled("rand")


_SOFT = {"fall-through", "jump-into-function", "ra-mismatch", "return-without-call", "sp-mismatch", "clobber"}
_HARD = {"stack-address", "jump-target", "sp-range", "call-depth"}
_MON = {
    "fall-through": "region",
    "jump-into-function": "region",
    "ra-mismatch": "shadow-stack",
    "return-without-call": "shadow-stack",
    "sp-mismatch": "shadow-stack",
    "sp-range": "shadow-stack",
    "call-depth": "shadow-stack",
    "clobber": "shadow-tags",
    "stack-address": "machine",
    "jump-target": "machine",
}


def _fmt(v):
    if isinstance(v, float) and v == v and abs(v) != math.inf and v == int(v):
        return str(int(v))
    return repr(v)


def _where(vm, pc):
    """'main' or the name of the function whose region contains pc."""
    if not vm.entries:
        return "main"
    best = None
    for e in vm.entries:
        if e <= pc and (best is None or e > best):
            best = e
    if best is None:
        return "main"
    return vm.funcs[best].get("name") or "function"


def label_index_map(code):
    """label -> index of the following instruction in the label-free numbering; also label -> text line."""
    p = Program(code) if isinstance(code, str) else code
    m = {}
    idx = 0
    inv = {v: k for k, v in p.labels.items()}
    by_line = {}
    for k, v in p.labels.items():
        by_line.setdefault(v, []).append(k)
    for i, t in enumerate(p.lines):
        if i in by_line:
            for lab in by_line[i]:
                m[lab] = idx
        else:
            idx += 1
    return m


def func_table(prog, funcs_meta, options, labelled_twin=None):
    """{entry line: dict(name, nargs, nret, pushpop)} for a Program.

    funcs_meta: [{name, label, nparams, ret}] from the generator.  With labels
    removed the entry lines come from the labelled twin's label->index map."""
    pp = bool(options.get("use_push_pop_functions"))
    out = {}

    def entered_by_jump(p):
        # the label of an inlined function can survive inside its caller (it does when the line carries a source
        # comment): only a label that some jal / j names is the entry of a subroutine
        return {t[-1] for t in p.lines if t and t[0] in ("jal", "j")}

    if options.get("remove_labels"):
        if labelled_twin is None:
            return out
        twin = Program(labelled_twin) if isinstance(labelled_twin, str) else labelled_twin
        m = label_index_map(twin)
        called = entered_by_jump(twin)
        for f in funcs_meta:
            if f["label"] in m and f["label"] in called:
                out[m[f["label"]]] = dict(name=f["name"], nargs=f["nparams"], nret=int(bool(f["ret"])), pushpop=pp)
    else:
        called = entered_by_jump(prog)
        for f in funcs_meta:
            if f["label"] in prog.labels and f["label"] in called:
                out[prog.labels[f["label"]]] = dict(name=f["name"], nargs=f["nparams"], nret=int(bool(f["ret"])), pushpop=pp)
    return out
