"""Glue used by the program-level checks: compile, execute, interpret, compare, always-on monitors."""
import copy
import re

from . import ic10_isa
from .common import OPTION_DEFAULTS, ensure_repo_on_path
from .env import Env
from .ic10_arith import close
from .ic10_vm import VM, Unmodelled, func_table
from .pyref import Interp, NotJudged

_cc = None
_CO = None


def repo():
    global _cc, _CO
    if _cc is None:
        ensure_repo_on_path()
        from stationeers_pytrapic.compiler import CompileOptions, compile_code

        _cc, _CO = compile_code, CompileOptions
    return _cc, _CO


def compile_src(src, opts=None, as_dict=False):
    """Real compile_code with a fresh options object.  src: str or {module: text}."""
    cc, CO = repo()
    o = dict(OPTION_DEFAULTS)
    o.update(opts or {})
    if isinstance(src, dict):
        src = dict(src)
    r = cc(src, dict(o) if as_dict else CO(**o))
    for _ in range(2):
        # the constexpr child has a 1 s budget that includes python start-up: under CPU load a terminating body
        # times out (the baseline lists constexpr_eval as flaky) -> retry, callers treat a remaining timeout as inconclusive
        if not is_timeout(r):
            break
        import time

        time.sleep(0.5)
        r = cc(dict(src) if isinstance(src, dict) else src, dict(o) if as_dict else CO(**o))
    return r


def is_timeout(r):
    return isinstance(r, dict) and isinstance(r.get("error"), dict) and "Timeout during evaluating constexpr" in str(r["error"].get("description", ""))


def directive_options(src, base):
    """The harness's own reading of the '# pytrapic:' rule (property C15): returns the option dict that the
    directives of the main source turn `base` into."""
    from .common import OPTION_NAMES

    text = src[""] if isinstance(src, dict) else src
    o = dict(OPTION_DEFAULTS)
    o.update(base or {})
    for line in text.split("\n"):
        st = line.strip()
        if not st.startswith("#") or "pytrapic:" not in st:
            continue
        rest = st.split("pytrapic:", 1)[1]
        for tag in rest.split(","):
            tag = tag.strip().replace("-", "_")
            val = True
            if tag.startswith("no_"):
                val = False
                tag = tag[3:].strip()
            if tag in OPTION_NAMES:
                o[tag] = val
    return o


_NUM = re.compile(r"(?<![\w.])-?\d+(?:\.\d+)?(?![\w.])")


def literals(src, limit=24):
    if isinstance(src, dict):
        src = "\n".join(src.values())
    out = []
    for m in _NUM.findall(src):
        try:
            v = float(m)
        except ValueError:
            continue
        if v not in out:
            out.append(v)
        if len(out) >= limit:
            break
    return out


CAPS = dict(quick=dict(max_steps=60000, max_effects=120), thorough=dict(max_steps=400000, max_effects=600))


def run_vm(code, env_seed, lits=(), funcs=None, meta=None, max_steps=60000, max_effects=120, prog=None, soft=False, path=False):
    """-> dict(status, effects, events, stat, steps) ; status 'unmodelled' if the machine cannot execute it"""
    try:
        vm = VM(prog or code, Env(env_seed, lits), funcs=funcs, meta=meta, max_steps=max_steps, max_effects=max_effects, soft=soft)
        if path:
            vm.path = []
        st = vm.run()
    except Unmodelled as e:
        return dict(status="unmodelled", reason=str(e), effects=[], events=[], stat={}, steps=0, path=[])
    return dict(status=st, effects=vm.effects, events=vm.events, stat=vm.stat, steps=vm.steps, pc=vm.pc, env_reads=vm.env.reads, path=vm.path)


def run_ref(src, env_seed, lits=(), max_steps=60000, max_effects=120, modules=None, perturb=False):
    if perturb is True:
        # 16 significant digits leave up to 2.25 ulp either way: one run 3 ulp up, one 3 ulp down
        up = run_ref(src, env_seed, lits, max_steps, max_effects, modules, perturb=3)
        if up.get("status") != "not-judged":
            up["alt"] = run_ref(src, env_seed, lits, max_steps, max_effects, modules, perturb=-3)
        return up
    try:
        it = Interp(src, Env(env_seed, lits), max_steps=max_steps, max_effects=max_effects, modules=modules, perturb=perturb)
        st = it.run()
    except NotJudged as e:
        return dict(status="not-judged", reason=str(e), effects=[])
    except RecursionError:
        return dict(status="not-judged", reason="recursion", effects=[])
    return dict(status=st, effects=it.effects, stat=it.stat, steps=it.steps, main_end_effects=it.main_end_effects)


def same_effect(a, b, tol=None):
    if len(a) != len(b):
        return False
    for k, (x, y) in enumerate(zip(a, b)):
        if not close(x, y):
            if tol is not None and k < len(tol) and tol[k] and isinstance(x, (int, float)) and isinstance(y, (int, float)) and abs(x - y) <= tol[k]:
                continue
            return False
    return True


def conditioning_slack(ref, ref2, factor=8.0):
    """ref: plain reference run, ref2: the run with one-ulp perturbed constant subexpressions (Interp(perturb=True)).
    -> per effect index a list of absolute tolerances (factor x the distance of the two runs), for the prefix on
    which both runs have the same shape; beyond that prefix the program's own branches depend on the last digit."""
    if ref2.get("alt") is not None:
        (o1, p1), (o2, p2) = conditioning_slack(ref, {k: v for k, v in ref2.items() if k != "alt"}, factor), conditioning_slack(ref, ref2["alt"], factor)
        n = min(len(o1), len(o2))
        return [[max(x, y) for x, y in zip(a, b)] for a, b in zip(o1[:n], o2[:n])], (p1 or p2 or len(o1) != len(o2))
    out = []
    blown = False
    for e1, e2 in zip(ref.get("effects", []), ref2.get("effects", [])):
        if len(e1) != len(e2) or blown:
            break
        tol = []
        ok = True
        for x, y in zip(e1, e2):
            if isinstance(x, (int, float)) and isinstance(y, (int, float)) and not isinstance(x, bool):
                if x == y or (x != x and y != y):
                    tol.append(0.0)
                elif x != x or y != y or abs(x) == float("inf") or abs(y) == float("inf"):
                    ok = False
                    break
                else:
                    tol.append(factor * abs(x - y))
                    if abs(x - y) > 1e-11 * max(abs(x), abs(y)):
                        blown = True  # one ulp has grown 10^4-fold: nothing after this effect is stable
            elif x != y:
                ok = False
                break
            else:
                tol.append(0.0)
        if not ok:
            break
        out.append(tol)
    parted = len(out) < max(len(ref.get("effects", [])), len(ref2.get("effects", []))) or ref.get("status") != ref2.get("status")
    return out, parted


def compare_conditioned(a, b, name_a, name_b, ref, make_ref2):
    """compare_traces; when the traces differ in a numeric value, ask how well-conditioned the SOURCE is there:
    make_ref2() runs the reference interpreter with one-ulp perturbed constant subexpressions, and the distance
    between it and the plain reference run `ref` (x8) becomes extra tolerance.  -> (verdict, info, conditioned)"""
    verdict, info = compare_traces(a, b, name_a, name_b)
    if verdict != "differ":
        return verdict, info, False
    if callable(ref):
        try:
            ref = ref()
        except Exception:
            ref = None
    if ref is None or ref.get("status") == "not-judged":
        return verdict, info, False
    try:
        ref2 = make_ref2()
    except Exception:
        return verdict, info, False
    if ref2.get("status") == "not-judged":
        return verdict, info, False
    slack = conditioning_slack(ref, ref2)
    if not slack[1] and not any(t for tol in slack[0] for t in tol):
        return verdict, info, False  # the perturbation changes nothing: the difference has another cause
    v2, i2 = compare_traces(a, b, name_a, name_b, slack=slack)
    return v2, i2, v2 != "differ"


def compare_traces(a, b, name_a="vm", name_b="ref", slack=None):
    if slack is None:
        return _compare_traces(a, b, name_a, name_b, None)
    tol, parted = slack
    verdict, info = _compare_traces(a, b, name_a, name_b, tol)
    if verdict == "differ" and parted and info.get("index", 0) >= len(tol):
        # the plain and the perturbed run of the SOURCE part ways before this point
        return "truncated", dict(kind="ill-conditioned", index=info.get("index"), was=info.get("kind"))
    return verdict, info


def _compare_traces(a, b, name_a, name_b, slack):
    """a, b: dict(status, effects).  -> (verdict, info)
    verdict: 'same' | 'truncated' (equal on the common prefix, one side hit a cap) | 'differ' (info = witness)
    slack (from conditioning_slack): extra absolute tolerance per effect; a difference beyond the prefix that the
    slack covers is 'truncated' with kind 'ill-conditioned' (the source itself is not stable there)."""
    ea, eb = a["effects"], b["effects"]
    n = min(len(ea), len(eb))
    for i in range(n):
        if not same_effect(ea[i], eb[i], slack[i] if slack is not None and i < len(slack) else None):
            return "differ", dict(kind="effect-differs", index=i, **{name_a: ea[max(0, i - 2) : i + 2], name_b: eb[max(0, i - 2) : i + 2]})
    sa, sb = a["status"], b["status"]
    done = ("end", "hcf", "machine-error")
    if len(ea) != len(eb):
        short, sshort, long_, other = (name_a, sa, eb, name_b) if len(ea) < len(eb) else (name_b, sb, ea, name_a)
        if sshort in done:
            return "differ", dict(kind=f"{short}-stopped-early", index=n, status={name_a: sa, name_b: sb}, next_effect_of_other=long_[n : n + 2])
        if sshort == "divergence":
            return "differ", dict(kind=f"{short}-silent-loop", index=n, status={name_a: sa, name_b: sb}, next_effect_of_other=long_[n : n + 2])
        return "truncated", dict(kind="step-cap", status={name_a: sa, name_b: sb})
    if sa in done and sb in done:
        if sa != sb:
            return "differ", dict(kind="halt-kind", status={name_a: sa, name_b: sb}, index=n)
        return "same", None
    if sa == sb:
        return "same", None
    pair = {sa, sb}
    if "divergence" in pair and (pair & set(done)):
        return "differ", dict(kind="one-side-loops-forever", status={name_a: sa, name_b: sb}, index=n)
    if pair == {"divergence", "steps"}:
        return "same", None
    return "truncated", dict(kind="termination-unclear", status={name_a: sa, name_b: sb})


# ------------------------------------------------------------------------------
# always-on postcondition monitors on a successful result (C09 loader, C17 recount)

_REGTOK = re.compile(r"^r(\d+)$")


def recount(result):
    """Independent recount of the statistics of a successful result -> list of problems (dicts)."""
    from . import tok

    code = result.get("code")
    probs = []
    if not isinstance(code, str):
        return [dict(event="code-not-str")]
    nl = len(code.split("\n")) if code != "" else 0
    # the property counts lines of 'code'; an empty program has zero lines
    if result.get("num_lines") != nl:
        probs.append(dict(event="num_lines", reported=result.get("num_lines"), recount=nl))
    ascii_only = all(ord(c) < 128 for c in code)
    nb = len(code.replace("\n", "\r\n"))
    if result.get("num_bytes") != nb:
        if ascii_only:
            probs.append(dict(event="num_bytes", reported=result.get("num_bytes"), recount=nb))
        else:
            nb8 = len(code.replace("\n", "\r\n").encode("utf-8"))
            if result.get("num_bytes") not in (nb, nb8):
                probs.append(dict(event="num_bytes", reported=result.get("num_bytes"), recount=nb, recount_utf8=nb8))
    regs = set()
    for toks, _c, _raw in tok.program_lines(code):
        if not toks or tok.is_label_def(toks):
            continue
        for t in toks[1:]:
            m = _REGTOK.match(t)
            if m and int(m.group(1)) < 16:
                regs.add(int(m.group(1)))
    if result.get("num_registers") != len(regs):
        probs.append(dict(event="num_registers", reported=result.get("num_registers"), recount=len(regs), registers=sorted(regs)))
    return probs


def names_physical_registers(src):
    if isinstance(src, dict):
        src = "\n".join(src.values())
    return bool(re.search(r"(?<![\w.])(r1[0-6]|r\d|sp|ra)(?![\w(])", src))


def func_meta_table(code, meta, opts, labelled_code=None):
    prog = ic10_isa.Program(code)
    return prog, func_table(prog, (meta or {}).get("funcs", []), opts, labelled_code)
