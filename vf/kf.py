"""Known findings: read-only at run time.

KNOWN_FINDINGS.txt lines:
  finding: property=C07 id=KF-C07-fallthrough also=C01,C02 <what fails>
  fixed: property=C03 <commit> <what failed>
known_findings/<id>.json:
  {"id", "property", "also": [..], "what", "signature": {..}, "trigger": name,
   "witness": {"C07": <explicit case>, ...}}
A violation is attributed to a finding only if (a) the finding lists this
property, (b) every key of the finding's signature equals the violation's and
(c) the finding's trigger predicate holds for the violating input.
"""
import json
import re

from .common import VERIF

_LINE = re.compile(r"^finding:\s+property=(C\d+)\s+id=(\S+)(?:\s+also=(\S+))?\s+(.*)$")


class Finding:
    def __init__(self, d):
        self.id = d["id"]
        self.property = d["property"]
        self.also = d.get("also", [])
        self.what = d.get("what", "")
        self.trigger = d.get("trigger")
        self.witness = d.get("witness", {})
        # per property: list of alternative signature patterns (dict subset match; {"in": [...]} = one of)
        self.signatures = {k: (v if isinstance(v, list) else [v]) for k, v in d.get("signatures", {}).items()}
        if "signature" in d:
            self.signatures.setdefault(self.property, []).append(d["signature"])

    def lists(self, prop):
        return prop == self.property or prop in self.also

    @staticmethod
    def _sub(pat, sig):
        for k, v in pat.items():
            if isinstance(v, dict) and "in" in v:
                if sig.get(k) not in v["in"]:
                    return False
            elif sig.get(k) != v:
                return False
        return True

    def matches(self, prop, violation):
        if not self.lists(prop):
            return False
        pats = self.signatures.get(prop)
        if not pats:
            return False
        sig = violation.get("signature", {})
        if not any(self._sub(p, sig) for p in pats):
            return False
        if self.trigger:
            trig = self.trigger if isinstance(self.trigger, list) else [self.trigger]
            have = violation.get("triggers", [])
            if not any(t in have for t in trig):
                return False
        return True


def load_findings():
    txt = VERIF / "KNOWN_FINDINGS.txt"
    ids = []
    if txt.exists():
        for line in txt.read_text().splitlines():
            m = _LINE.match(line.strip())
            if m:
                ids.append(m.group(2))
    out = []
    for i in ids:
        p = VERIF / "known_findings" / f"{i}.json"
        if p.exists():
            out.append(Finding(json.loads(p.read_text())))
    return out


def attribute(prop, violation, findings):
    for f in findings:
        if f.matches(prop, violation):
            return f
    return None
