"""Quote-aware tokeniser for IC10 text (independent of the transpiler's regexes)."""
import re

_QEND = re.compile(r'"\)(?=\s|$|#)')
_NUM_DEC = re.compile(r"^-?(?:\d+\.?\d*|\.\d+)$")
_NUM_EXP = re.compile(r"^-?(?:\d+\.?\d*|\.\d+)[eE][+-]?\d+$")
_NUM_HEX = re.compile(r"^\$[0-9A-Fa-f_]+$")
_NUM_BIN = re.compile(r"^%[01_]+$")
_REG = re.compile(r"^r(\d+)$")
_DEV = re.compile(r"^d([0-5]|b)(?::\d+)?$")
_IDENT = re.compile(r"^[A-Za-z_][A-Za-z0-9_.]*$")


def split_line(line: str):
    """-> (tokens, comment or None).  HASH("..")/STR("..") are single tokens and
    may contain spaces and '#'.  A '#' outside such a token starts a comment."""
    toks = []
    i, n = 0, len(line)
    while i < n:
        ch = line[i]
        if ch in " \t\r":
            i += 1
            continue
        if ch == "#":
            return toks, line[i + 1 :]
        if line.startswith('HASH("', i) or line.startswith('STR("', i):
            start = i
            j = line.index('("', i) + 2
            m = _QEND.search(line, j)
            if m:
                i = m.end()
                toks.append(line[start:i])
                continue
            # unterminated: fall through to plain token
        j = i
        while j < n and line[j] not in " \t\r#":
            j += 1
        toks.append(line[i:j])
        i = j
    return toks, None


def program_lines(code: str):
    """-> list of (tokens, comment, raw) per text line (labels keep their ':')."""
    out = []
    for raw in code.split("\n"):
        toks, comment = split_line(raw)
        out.append((toks, comment, raw))
    return out


def is_label_def(toks) -> bool:
    return len(toks) == 1 and toks[0].endswith(":") and len(toks[0]) > 1


def reg_index(tok: str):
    """r0..r15 -> 0..15, sp -> 16, ra -> 17, else None."""
    if tok == "sp":
        return 16
    if tok == "ra":
        return 17
    m = _REG.match(tok)
    if m and len(m.group(1)) <= 2 and int(m.group(1)) < 16 and (m.group(1) == "0" or not m.group(1).startswith("0")):
        return int(m.group(1))
    return None


def is_device(tok: str) -> bool:
    return bool(_DEV.match(tok))


def parse_number(tok: str):
    """-> (value, form) or None.  form in dec, exp, hex, bin."""
    if _NUM_DEC.match(tok):
        v = float(tok)
        if "." not in tok:
            return int(tok), "dec"
        return v, "dec"
    if _NUM_EXP.match(tok):
        return float(tok), "exp"
    if _NUM_HEX.match(tok):
        return int(tok[1:].replace("_", ""), 16), "hex"
    if _NUM_BIN.match(tok):
        return int(tok[1:].replace("_", ""), 2), "bin"
    return None


def is_hash(tok: str) -> bool:
    return tok.startswith('HASH("') and tok.endswith('")')


def is_str(tok: str) -> bool:
    return tok.startswith('STR("') and tok.endswith('")')


def is_ident(tok: str) -> bool:
    return bool(_IDENT.match(tok))
