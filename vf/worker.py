"""Worker: python -m vf.worker <PROP>; JSON lines in, JSON lines out."""
import importlib
import json
import os
import sys
import traceback


def main():
    prop = sys.argv[1]
    # keep the protocol channel private: anything the repository prints goes to stderr
    out = os.fdopen(os.dup(1), "w", buffering=1)
    os.dup2(2, 1)
    sys.stdout = sys.stderr
    cover = None
    if os.environ.get("VERIF_COVER") == "1":
        from . import cover as _cover

        if _cover.start():
            cover = _cover
    mod = importlib.import_module(f"vf.props.{prop.lower()}")
    if hasattr(mod, "worker_init"):
        mod.worker_init()
    for line in sys.stdin:
        line = line.strip()
        if not line:
            continue
        task = json.loads(line)
        for i in range(task["lo"], task["hi"]):
            try:
                r = mod.run_case(task, i)
            except Exception as e:  # harness error: never a verdict
                r = dict(verdict="inconclusive", reason="harness-exception:" + type(e).__name__, detail=traceback.format_exc()[-1500:], counters={})
            if r is None:
                continue
            r.setdefault("counters", {})
            r["stream"] = task["stream"]
            r["i"] = i
            r["id"] = f"{task['stream']}:{i}"
            try:
                s = json.dumps(r, default=repr)
            except Exception as e:
                s = json.dumps(dict(stream=task["stream"], i=i, id=f"{task['stream']}:{i}", verdict="inconclusive", reason="unserialisable:" + repr(e), counters={}))
            out.write(s + "\n")
        if cover is not None:
            out.write(json.dumps(dict(coverage=cover.drain())) + "\n")
        out.write('{"done": true}\n')
        out.flush()


if __name__ == "__main__":
    main()
