"""Shared pipeline for the program-level checks (C01 C02 C04 C05 C06 C07 C13)."""
import ast
import re

from . import harness as H
from . import ic10_isa
from .common import opts_key
from .ic10_vm import func_table


def funcs_of(src):
    """[{name, label, nparams, ret}] for every function of the main file and the library modules.
    Labels as the transpiler spells them: qualified name with '_' -> '.'."""
    mods = src if isinstance(src, dict) else {"": src}
    out = []
    alias = {}
    try:
        main = ast.parse(mods.get("", ""))
    except Exception:
        return out
    for n in ast.walk(main):
        if isinstance(n, ast.ImportFrom) and n.module == "library":
            for a in n.names:
                alias[a.name] = a.asname or a.name
    for mname, text in mods.items():
        try:
            tree = main if mname == "" else ast.parse(text)
        except Exception:
            continue
        prefix = "" if mname == "" else alias.get(mname, mname) + "."
        for n in tree.body:
            if isinstance(n, ast.FunctionDef):
                if any(isinstance(d, ast.Name) and d.id in ("constexpr", "emit_code") for d in n.decorator_list):
                    continue
                ret = any(isinstance(m, ast.Return) and m.value is not None for m in ast.walk(n))
                q = prefix + n.name
                out.append(dict(name=q, label=q.replace("_", "."), nparams=len(n.args.args), ret=ret))
    return out


class Compiled:
    __slots__ = ("opts", "result", "ok", "code", "prog", "loader_events", "funcs", "error", "labelled")

    def __init__(self, src, opts, fmeta=None, want_funcs=True):
        self.result = H.compile_src(src, opts)
        # in-source directives override the caller's options: monitors need the effective vector
        opts = H.directive_options(src, opts)
        self.opts = opts
        r = self.result
        self.ok = isinstance(r, dict) and isinstance(r.get("code"), str)
        self.error = None if self.ok else (r.get("error", {}).get("description", "?") if isinstance(r, dict) and isinstance(r.get("error"), dict) else repr(r)[:200])
        self.code = r["code"] if self.ok else None
        self.prog = None
        self.loader_events = []
        self.funcs = {}
        self.labelled = None
        if self.ok:
            self.prog, self.loader_events = ic10_isa.load(self.code)
            if want_funcs and fmeta:
                if opts.get("remove_labels"):
                    tw = H.compile_src(src, dict(opts, remove_labels=False))
                    if isinstance(tw, dict) and isinstance(tw.get("code"), str):
                        self.labelled = tw["code"]
                self.funcs = func_table(self.prog, fmeta, opts, self.labelled)

    @property
    def key(self):
        return opts_key(self.opts)


def error_class(desc):
    if desc is None:
        return None
    d = desc
    d = re.sub(r"line \d+:\d+", "line N", d)
    for pat, name in (("Running out of registers", "out-of-registers"), ("not found in scope", "name-not-found"), ("Structures as function arguments", "structure-argument"), ("Internal compiler error", "internal"), ("Syntax error", "syntax"), ("Tail call optimization", "tail-call-restriction"), ("cannot sort scopes", "scope-cycle")):
        if pat in d:
            return name
    return "other:" + d[:40].replace("\n", " ")


def first_event(vmres):
    ev = vmres.get("events") or []
    return ev[0] if ev else None


def event_sig(e):
    """Structured signature of a machine event (no pcs / values: mechanism only)."""
    if e is None:
        return None
    s = dict(monitor=e["monitor"], event=e["event"])
    for k in ("callee", "where", "frm", "to", "convention"):
        if k in e:
            s[k] = e[k]
    return s
