"""Anchor coverage probe: which lines of the repository files a property is anchored in did the workload execute?

Not a verdict - the answer to "what did the monitors get to see".  One worker per run executes its share of the
cases with sys.monitoring LINE events on the package's files; every line disables itself after its first hit.
"""
import dis
import json
import os
import re
import sys
import types

from .common import PKG, VERIF

TOOL = 4
_hits = set()
_on = False


def start():
    global _on
    if _on or not hasattr(sys, "monitoring"):
        return False
    mon = sys.monitoring
    try:
        mon.use_tool_id(TOOL, "vf-anchor-cover")
    except Exception:
        return False
    pkg = str(PKG)

    def on_line(code, line):
        fn = code.co_filename
        if fn.startswith(pkg):
            _hits.add((os.path.basename(fn), line))
        return mon.DISABLE

    mon.register_callback(TOOL, mon.events.LINE, on_line)
    mon.set_events(TOOL, mon.events.LINE)
    _on = True
    return True


def drain():
    """-> {file: [lines]} executed since the last drain"""
    out = {}
    for f, l in _hits:
        out.setdefault(f, []).append(l)
    _hits.clear()
    return out


def executable_lines(path):
    try:
        code = compile(open(path, encoding="utf-8").read(), path, "exec")
    except Exception:
        return set()
    lines = set()
    todo = [code]
    while todo:
        c = todo.pop()
        for _off, ln in dis.findlinestarts(c):
            if ln:
                lines.add(ln)
        for k in c.co_consts:
            if isinstance(k, types.CodeType):
                todo.append(k)
    return lines


_RANGE = re.compile(r"([\w_]+\.py):([\d,\s\-]+)")


def anchors_of(prop):
    """[(mechanism name, file, [(lo, hi)])] from properties.jsonl"""
    out = []
    for l in (VERIF / "properties.jsonl").read_text().splitlines():
        if not l.strip():
            continue
        p = json.loads(l)
        if p["id"] != prop:
            continue
        for m in p["anchors"].get("mechanism", []):
            for f, spec in _RANGE.findall(m.get("where", "")):
                rs = []
                for part in spec.split(","):
                    part = part.strip()
                    if not part:
                        continue
                    if "-" in part:
                        a, b = part.split("-", 1)
                        if a.strip().isdigit() and b.strip().isdigit():
                            rs.append((int(a), int(b)))
                    elif part.isdigit():
                        rs.append((int(part), int(part)))
                if rs:
                    out.append((m.get("name", "")[:90], f, rs))
    return out


def report(prop, hits):
    """hits: {file: set(lines)} -> list of dicts for the evidence file.
    Line ranges in properties.jsonl refer to the pinned commit; later fix/hook commits shift lines by a few, so the
    report is about the same region of the file, not a line-exact statement."""
    rep = []
    cache = {}
    for name, f, rs in anchors_of(prop):
        path = PKG / f
        if not path.exists():
            continue
        if f not in cache:
            cache[f] = executable_lines(str(path))
        ex = cache[f]
        want = {l for l in ex if any(a <= l <= b for a, b in rs)}
        got = want & set(hits.get(f, ()))
        rep.append(dict(mechanism=name, file=f, ranges=[f"{a}-{b}" for a, b in rs], executable_lines=len(want), executed=len(got), never_executed=sorted(want - got)[:25]))
    return rep
