"""Reference interpreter of the Python dialect (on `ast`; shares no code with the transpiler).

Semantics: Python control flow and scoping, IC10 arithmetic (vf.ic10_arith),
device API as documented in the README.  Produces the same effect tuples as the
reference machine against the same Env.
"""
import ast
import json
import math
from functools import lru_cache

from . import enums as E
from .common import VERIF
from .crc import hash_signed, str_pack
from .ic10_arith import BIN, TRI, UN


class NotJudged(Exception):
    """construct outside the judged subset: the case is skipped, never a verdict"""


class _Halt(Exception):
    pass


class _Brk(Exception):
    pass


class _Cnt(Exception):
    pass


class _Ret(Exception):
    def __init__(self, v):
        self.v = v


BINOP = {ast.Add: "add", ast.Sub: "sub", ast.Mult: "mul", ast.Div: "div", ast.Mod: "mod", ast.Pow: "pow", ast.BitXor: "xor", ast.BitAnd: "and", ast.RShift: "srl", ast.LShift: "sll"}
CMPOP = {ast.Eq: "seq", ast.NotEq: "sne", ast.Lt: "slt", ast.LtE: "sle", ast.Gt: "sgt", ast.GtE: "sge"}
MATH1 = {"abs", "floor", "ceil", "sqrt", "round", "trunc", "sin", "cos", "tan", "asin", "acos", "atan", "exp", "log"}
MATH2 = {"min", "max", "atan2", "mod", "add", "sub", "mul", "div", "pow", "xor", "nor", "sll", "srl", "sra", "sla", "seq", "sne", "slt", "sle", "sgt", "sge"}
MATH2_ALIAS = {"and_": "and", "or_": "or"}
MATH1_ALIAS = {"not_": "not", "seqz": "seqz", "snez": "snez", "sgtz": "sgtz", "sltz": "sltz", "sgez": "sgez", "slez": "slez", "move": "move"}
BATCH = {"Average": 0, "Sum": 1, "Minimum": 2, "Maximum": 3}


@lru_cache(None)
def structures():
    """Small independent device table: snapshot taken at the pinned commit."""
    d = json.loads((VERIF / "vf" / "refdata" / "structures_pinned.json").read_text())
    plural = {v["plural"]: k for k, v in d.items() if v.get("plural")}
    return d, plural


@lru_cache(None)
def _enum_tables():
    lt = dict(E.positional("T", "live"))
    lt.update(E.positional("T", "pinned"))
    st = dict(E.positional("S", "live"))
    st.update(E.positional("S", "pinned"))
    dotted = dict(E.dotted("live"))
    dotted.update(E.dotted("pinned"))
    classes = set(E.merged())
    return lt, st, dotted, classes


class Dev:
    def __init__(self, id, cls=None):
        self.id = id  # 'd0'.. 'db' or 'ref:<n>'
        self.cls = cls


class Slot:
    def __init__(self, dev, idx):
        self.dev = dev
        self.idx = idx


class Stk:
    def __init__(self, dev):
        self.dev = dev


class Batch:
    def __init__(self, prefab, name=None, mode=None, cls=None):
        self.prefab = prefab
        self.name = name
        self.mode = mode
        self.cls = cls


class BatchLT:
    def __init__(self, batch, lt):
        self.batch = batch
        self.lt = lt


class EnumCls:
    def __init__(self, name):
        self.name = name


class Interp:
    def __init__(self, src, env, max_steps=200000, max_effects=200, modules=None, perturb=False):
        self.tree = ast.parse(src) if isinstance(src, str) else src
        self.env = env
        # perturb (signed number of ulps): every non-integral value of a constant subexpression is moved by that much.
        # The transpiler prints folded values with 16 significant digits; the distance between this run and the
        # plain one tells how far such a rounding can carry in THIS program (conditioning of the trace).
        self.perturb = perturb
        self._constexpr_cache = {}
        self.g = {}
        self.funcs = {}
        self.stack = [0.0] * 512
        self.sp = 0
        self.effects = []
        self.steps = 0
        self.max_steps = max_steps
        self.max_effects = max_effects
        self.status = None
        self.main_end_effects = None
        self.stat = dict(calls=0, max_depth=0, loops=0, branches=0)
        self.depth = 0
        self.lt, self.st, self.dotted, self.enum_classes = _enum_tables()
        self.sdata, self.plural = structures()
        self.modules = {}  # name -> (globals dict, funcs dict)
        self.module_src = modules or {}
        self.cur_mod = ""
        b = {f"d{i}": Dev(f"d{i}") for i in range(6)}
        b["db"] = Dev("db")
        b["stack"] = Stk("db")
        b.update(pi=math.pi, tau=2 * math.pi, rgas=8.31446261815324)
        self.builtins = b

    # ------------------------------------------------------------------ plumbing
    def effect(self, *e):
        self.effects.append(e)
        if len(self.effects) >= self.max_effects:
            self.status = "effects"
            raise _Halt()

    def tickstep(self):
        self.steps += 1
        if self.steps > self.max_steps:
            self.status = "steps"
            raise _Halt()

    def run(self):
        try:
            self.block(self.tree.body, None, frozenset(), self.g, self.funcs)
            self.status = "end"
            self.main_end_effects = len(self.effects)
        except _Halt:
            pass
        return self.status

    # ------------------------------------------------------------------ names
    def lookup(self, name, loc, gl, G, F):
        if loc is not None and name not in gl and name in loc:
            return loc[name]
        if name in G:
            return G[name]
        if name in self.builtins:
            return self.builtins[name]
        if name in self.sdata:
            return ("structure-class", name)
        if name in self.plural:
            cls = self.plural[name]
            return Batch(hash_signed(self.sdata[cls]["prefab"]), cls=cls)
        if name in self.enum_classes:
            return EnumCls(name)
        if name in self.modules:
            return ("module", name)
        if name == "__name__":
            return "__main__"
        raise NotJudged(f"name {name}")

    def store(self, name, v, loc, gl, G):
        if loc is None or name in gl:
            G[name] = v
        else:
            loc[name] = v

    # ------------------------------------------------------------------ statements
    def block(self, body, loc, gl, G, F):
        for st in body:
            self.stmt(st, loc, gl, G, F)

    def stmt(self, st, loc, gl, G, F):
        self.tickstep()
        T = type(st)
        if T is ast.ImportFrom:
            if st.module == "library":
                for a in st.names:
                    self.load_module(a.name, a.asname or a.name)
            return
        if T in (ast.Import, ast.Pass, ast.Global):
            return
        if T is ast.FunctionDef:
            if any(isinstance(d, ast.Name) and d.id in ("constexpr", "emit_code") for d in st.decorator_list):
                raise NotJudged("constexpr in interpreter")
            F[st.name] = (st, G, F)
            return
        if T is ast.Assign:
            if len(st.targets) != 1:
                raise NotJudged("multiple targets")
            v = self.ev(st.value, loc, gl, G, F)
            self.assign(st.targets[0], v, loc, gl, G, F)
            return
        if T is ast.AugAssign:
            if not isinstance(st.target, ast.Name) or type(st.op) not in BINOP:
                raise NotJudged("augassign form")
            cur = self.lookup(st.target.id, loc, gl, G, F)
            v = self.num(self.ev(st.value, loc, gl, G, F))
            self.store(st.target.id, float(BIN[BINOP[type(st.op)]](self.num(cur), v)), loc, gl, G)
            return
        if T is ast.Expr:
            self.ev(st.value, loc, gl, G, F)
            return
        if T is ast.If:
            self.stat["branches"] += 1
            if self.truth(st.test, loc, gl, G, F):
                self.block(st.body, loc, gl, G, F)
            else:
                self.block(st.orelse, loc, gl, G, F)
            return
        if T is ast.While:
            if st.orelse:
                raise NotJudged("while-else")
            while self.truth(st.test, loc, gl, G, F):
                self.stat["loops"] += 1
                self.tickstep()
                try:
                    self.block(st.body, loc, gl, G, F)
                except _Brk:
                    break
                except _Cnt:
                    continue
            return
        if T is ast.For:
            if st.orelse or not isinstance(st.target, ast.Name):
                raise NotJudged("for form")
            it = st.iter
            if isinstance(it, ast.Call) and isinstance(it.func, ast.Name) and it.func.id == "range":
                a = [self.num(self.ev(x, loc, gl, G, F)) for x in it.args]
                if len(a) == 1:
                    start, stop, step = 0.0, a[0], 1.0
                elif len(a) == 2:
                    start, stop, step = a[0], a[1], 1.0
                elif len(a) == 3:
                    start, stop, step = a
                else:
                    raise NotJudged("range arity")
                i = start
                while (i < stop) if step >= 0 else (i > stop):
                    self.stat["loops"] += 1
                    self.tickstep()
                    self.store(st.target.id, i, loc, gl, G)
                    try:
                        self.block(st.body, loc, gl, G, F)
                    except _Brk:
                        break
                    except _Cnt:
                        pass
                    i += step
                return
            seq = self.ev(it, loc, gl, G, F)
            if not isinstance(seq, list):
                raise NotJudged("for over non-list")
            for e in seq:
                self.stat["loops"] += 1
                self.tickstep()
                self.store(st.target.id, e, loc, gl, G)
                try:
                    self.block(st.body, loc, gl, G, F)
                except _Brk:
                    break
                except _Cnt:
                    pass
            return
        if T is ast.Break:
            raise _Brk()
        if T is ast.Continue:
            raise _Cnt()
        if T is ast.Return:
            raise _Ret(self.ev(st.value, loc, gl, G, F) if st.value is not None else None)
        raise NotJudged(f"statement {T.__name__}")

    def load_module(self, name, alias):
        src = self.module_src.get(name)
        if src is None:
            raise NotJudged(f"module {name}")
        G2, F2 = {"__name__": name}, {}
        self.modules[alias] = (G2, F2)
        tree = ast.parse(src)
        self.block(tree.body, None, frozenset(), G2, F2)

    def assign(self, t, v, loc, gl, G, F):
        if isinstance(t, ast.Name):
            self.store(t.id, v, loc, gl, G)
        elif isinstance(t, ast.Attribute):
            o = self.ev(t.value, loc, gl, G, F)
            v = self.num(v)
            self.write_attr(o, t.attr, v)
        elif isinstance(t, ast.Subscript):
            o = self.ev(t.value, loc, gl, G, F)
            if not isinstance(o, Stk):
                raise NotJudged("subscript store")
            ad = self.addr(self.ev(t.slice, loc, gl, G, F))
            v = self.num(v)
            if o.dev == "db":
                self.stack[ad] = v
            else:
                self.env.write(("stk", o.dev, ad), v)
                self.effect("put", o.dev, ad, v)
        else:
            raise NotJudged("assign target")

    def addr(self, v):
        v = self.num(v)
        if v != v or abs(v) == math.inf or not 0 <= int(v) < 512:
            raise NotJudged("stack address out of range")
        if not 64 <= int(v) <= 447:
            # the call conventions keep return values/arguments in the top cells and push ra from cell 0 upwards;
            # user data there is outside the judged subset (DESIGN.md 2.4)
            raise NotJudged("user data at a stack address the call conventions use")
        return int(v)

    def num(self, v):
        if isinstance(v, bool):
            return float(v)
        if isinstance(v, (int, float)):
            return float(v)
        if v is None:
            raise NotJudged("None used as a number")
        raise NotJudged(f"non-number {type(v).__name__}")

    def ltkey(self, name):
        return self.lt.get(name, name)

    def stkey(self, name):
        return self.st.get(name, name)

    def write_attr(self, o, attr, v):
        if isinstance(o, Dev):
            k = ("l", o.id, self.ltkey(attr))
            self.env.write(k, v)
            self.effect("s", k[1], k[2], v)
        elif isinstance(o, Slot):
            k = ("ls", o.dev.id, o.idx, self.stkey(attr))
            self.env.write(k, v)
            self.effect("ss", k[1], k[2], k[3], v)
        elif isinstance(o, Batch):
            lt = self.ltkey(attr)
            for m in range(4):
                self.env.write(("lb", o.prefab, o.name, lt, m), v)
            if o.name is None:
                self.effect("sb", o.prefab, lt, v)
            else:
                self.effect("sbn", o.prefab, o.name, lt, v)
        else:
            raise NotJudged("attribute store target")

    def read_attr(self, o, attr):
        if isinstance(o, Dev):
            cls = o.cls
            if cls is not None:
                slots = self.sdata[cls]["slots"]
                if attr in slots:
                    return Slot(o, slots[attr])
            if attr.startswith("slot") and attr[4:].isdigit():
                return Slot(o, int(attr[4:]))
            return self.env.read(("l", o.id, self.ltkey(attr)))
        if isinstance(o, Slot):
            return self.env.read(("ls", o.dev.id, o.idx, self.stkey(attr)))
        if isinstance(o, Batch):
            if attr in BATCH:
                if o.mode is not None:
                    # Batch.Average.Maximum: a logic type named like a batch method
                    return self.env.read(("lb", o.prefab, o.name, self.ltkey(attr), o.mode))
                return Batch(o.prefab, o.name, BATCH[attr], o.cls)
            if o.mode is not None:
                return self.env.read(("lb", o.prefab, o.name, self.ltkey(attr), o.mode))
            return BatchLT(o, attr)
        if isinstance(o, BatchLT):
            if attr in BATCH:
                return self.env.read(("lb", o.batch.prefab, o.batch.name, self.ltkey(o.lt), BATCH[attr]))
            raise NotJudged("batch logic type without method")
        if isinstance(o, EnumCls):
            v = self.dotted.get(f"{o.name}.{attr}")
            if v is None:
                raise NotJudged("enum member")
            return float(v)
        if isinstance(o, tuple) and o[0] == "module":
            G2, F2 = self.modules[o[1]]
            if attr in G2:
                return G2[attr]
            if attr in F2:
                return ("mfunc", o[1], attr)
            raise NotJudged("module attribute")
        raise NotJudged(f"attribute of {type(o).__name__}")

    # ------------------------------------------------------------------ expressions
    def truth(self, e, loc, gl, G, F):
        # a comparison evaluated as the test of if / while: remember the first one that met a NaN operand (the
        # transpiler branches on the negated comparison, which is not the negation when an operand is NaN)
        self._in_test = getattr(self, "_in_test", 0) + 1
        try:
            return self.num(self.ev(e, loc, gl, G, F)) != 0
        finally:
            self._in_test -= 1

    def _syntactic_constant(self, e):
        k = id(e)
        c = self._constexpr_cache.get(k)
        if c is None:
            if isinstance(e, ast.Constant):
                c = isinstance(e.value, (int, float, bool))
            elif isinstance(e, (ast.BinOp, ast.UnaryOp, ast.Compare, ast.BoolOp, ast.IfExp)):
                c = all(self._syntactic_constant(x) for x in ast.iter_child_nodes(e) if isinstance(x, ast.expr))
            elif isinstance(e, ast.Call):
                c = isinstance(e.func, ast.Name) and e.func.id not in self.funcs and not e.keywords and bool(e.args) and all(self._syntactic_constant(x) for x in e.args)
            elif isinstance(e, ast.Name):
                c = e.id in ("pi", "tau", "rgas") or e.id in self._single_constants()
            else:
                c = False
            self._constexpr_cache[k] = c
        return c

    def _single_constants(self):
        """names bound exactly once in the whole text, by a plain assignment of a syntactically constant expression
        (the transpiler propagates such variables as constants)"""
        sc = getattr(self, "_sc", None)
        if sc is None:
            stores = {}
            cands = {}
            trees = [self.tree] + [t for t in (getattr(self, "_module_trees", None) or [])]
            for t in trees:
                for n in ast.walk(t):
                    if isinstance(n, ast.Name) and isinstance(n.ctx, (ast.Store, ast.Del)):
                        stores[n.id] = stores.get(n.id, 0) + 1
                    elif isinstance(n, ast.arg):
                        stores[n.arg] = stores.get(n.arg, 0) + 2
                    elif isinstance(n, ast.AugAssign) and isinstance(n.target, ast.Name):
                        stores[n.target.id] = stores.get(n.target.id, 0) + 1
                    if isinstance(n, ast.Assign) and len(n.targets) == 1 and isinstance(n.targets[0], ast.Name):
                        cands.setdefault(n.targets[0].id, []).append(n.value)
            self._sc = sc = set()
            # iterate: K2 = K1 * 2 is constant once K1 is
            for _ in range(4):
                before = len(sc)
                for k, vals in cands.items():
                    if k not in sc and stores.get(k, 0) == 1 and len(vals) == 1:
                        self._constexpr_cache.clear()
                        if self._syntactic_constant(vals[0]):
                            sc.add(k)
                if len(sc) == before:
                    break
            self._constexpr_cache.clear()
        return sc

    def ev(self, e, loc, gl, G, F):
        v = self._ev(e, loc, gl, G, F)
        if self.perturb and isinstance(v, float) and type(e) in (ast.BinOp, ast.Call, ast.UnaryOp, ast.Constant) and v == v and abs(v) != math.inf and v != int(v) and self._syntactic_constant(e):
            v = v * (1.0 + float(self.perturb) * 2.0**-52)
        return v

    def _ev(self, e, loc, gl, G, F):
        T = type(e)
        if T is ast.Constant:
            v = e.value
            if isinstance(v, (bool, int, float)):
                return float(v)
            if isinstance(v, str):
                return v
            raise NotJudged("constant")
        if T is ast.Name:
            return self.lookup(e.id, loc, gl, G, F)
        if T is ast.Attribute:
            return self.read_attr(self.ev(e.value, loc, gl, G, F), e.attr)
        if T is ast.Subscript:
            o = self.ev(e.value, loc, gl, G, F)
            idx = self.ev(e.slice, loc, gl, G, F)
            if isinstance(o, list):
                i = self.num(idx)
                if i != int(i) or not 0 <= int(i) < len(o):
                    raise NotJudged("list index out of range")
                return o[int(i)]
            if isinstance(o, Stk):
                ad = self.addr(idx)
                if o.dev == "db":
                    return self.stack[ad]
                return self.env.read(("stk", o.dev, ad))
            if isinstance(o, Batch):
                name = hash_signed(idx) if isinstance(idx, str) else self.num(idx)
                if isinstance(name, float) and name == int(name):
                    name = int(name)
                return Batch(o.prefab, name, o.mode, o.cls)
            raise NotJudged("subscript")
        if T in (ast.List, ast.Tuple):
            return [self.ev(x, loc, gl, G, F) for x in e.elts]
        if T is ast.BinOp:
            if type(e.op) not in BINOP:
                raise NotJudged("binop")
            l = self.num(self.ev(e.left, loc, gl, G, F))
            r = self.num(self.ev(e.right, loc, gl, G, F))
            return float(BIN[BINOP[type(e.op)]](l, r))
        if T is ast.BoolOp:
            vals = [self.num(self.ev(v, loc, gl, G, F)) for v in e.values]
            op = "and" if isinstance(e.op, ast.And) else "or"
            acc = vals[-1]
            for v in reversed(vals[:-1]):
                acc = float(BIN[op](v, acc))
            return acc
        if T is ast.UnaryOp:
            v = self.num(self.ev(e.operand, loc, gl, G, F))
            if isinstance(e.op, ast.USub):
                return 0.0 - v
            if isinstance(e.op, ast.Not):
                return float(v == 0)
            if isinstance(e.op, ast.Invert):
                return float(UN["not"](v))
            raise NotJudged("unary op")
        if T is ast.Compare:
            if len(e.ops) != 1 or type(e.ops[0]) not in CMPOP:
                raise NotJudged("compare form")
            lv = self.ev(e.left, loc, gl, G, F)
            rv = self.ev(e.comparators[0], loc, gl, G, F)
            if isinstance(lv, str) and isinstance(rv, str) and isinstance(e.ops[0], (ast.Eq, ast.NotEq)):
                return float((lv == rv) == isinstance(e.ops[0], ast.Eq))
            l = self.num(lv)
            r = self.num(rv)
            if (l != l or r != r) and getattr(self, "_in_test", 0) and "nan_test_at" not in self.stat:
                self.stat["nan_test_at"] = len(self.effects)
            return float(BIN[CMPOP[type(e.ops[0])]](l, r))
        if T is ast.IfExp:
            c = self.num(self.ev(e.test, loc, gl, G, F))
            a = self.ev(e.body, loc, gl, G, F)
            b = self.ev(e.orelse, loc, gl, G, F)
            return a if c != 0 else b
        if T is ast.Call:
            return self.call(e, loc, gl, G, F)
        raise NotJudged(f"expression {T.__name__}")

    def call(self, e, loc, gl, G, F):
        if e.keywords and not (isinstance(e.func, ast.Name) and e.func.id in ("Stack",)) and not (isinstance(e.func, ast.Name) and e.func.id in self.sdata):
            raise NotJudged("keyword arguments")
        if isinstance(e.func, ast.Attribute):
            tgt = self.ev(e.func, loc, gl, G, F)
            if isinstance(tgt, tuple) and tgt[0] == "mfunc":
                G2, F2 = self.modules[tgt[1]]
                args = [self.ev(a, loc, gl, G, F) for a in e.args]
                return self.invoke(F2[tgt[2]], args)
            raise NotJudged("attribute call")
        if not isinstance(e.func, ast.Name):
            raise NotJudged("call form")
        fn = e.func.id
        if fn in F or fn in self.funcs and F is self.funcs:
            args = [self.ev(a, loc, gl, G, F) for a in e.args]
            return self.invoke(F[fn], args)
        if fn == "Stack":
            if e.keywords:
                kw = {k.arg: self.ev(k.value, loc, gl, G, F) for k in e.keywords}
                if set(kw) != {"ref_id"} or e.args:
                    raise NotJudged("Stack kwargs")
                return Stk("ref:" + _fmt(self.num(kw["ref_id"])))
            if not e.args:
                return Stk("db")
            d = self.ev(e.args[0], loc, gl, G, F)
            if not isinstance(d, Dev):
                raise NotJudged("Stack arg")
            return Stk(d.id)
        if fn in self.sdata:
            if e.keywords or len(e.args) != 1:
                raise NotJudged("structure ctor form")
            d = self.ev(e.args[0], loc, gl, G, F)
            if not isinstance(d, Dev):
                raise NotJudged("structure ctor arg")
            return Dev(d.id, fn)
        args = [self.ev(a, loc, gl, G, F) for a in e.args]
        if fn == "yield_":
            self.effect("yield")
            self.env.advance()
            return None
        if fn == "sleep":
            self.effect("sleep", self.num(args[0]))
            self.env.advance()
            return None
        if fn == "hcf":
            self.effects.append(("hcf",))
            self.status = "hcf"
            raise _Halt()
        if fn in MATH1 and len(args) == 1:
            return float(UN[fn](self.num(args[0])))
        if fn in MATH1_ALIAS and len(args) == 1:
            return float(UN[MATH1_ALIAS[fn]](self.num(args[0])))
        if fn in MATH2 and len(args) == 2:
            return float(BIN[fn](self.num(args[0]), self.num(args[1])))
        if fn in MATH2_ALIAS and len(args) == 2:
            return float(BIN[MATH2_ALIAS[fn]](self.num(args[0]), self.num(args[1])))
        if fn == "select" and len(args) == 3:
            return self.num(args[1]) if self.num(args[0]) != 0 else self.num(args[2])
        if fn in ("sap", "sna", "lerp") and len(args) == 3:
            return float(TRI[fn](*[self.num(a) for a in args]))
        if fn == "HASH" and len(args) == 1 and isinstance(args[0], str):
            return float(hash_signed(args[0]))
        if fn == "STR" and len(args) == 1 and isinstance(args[0], str):
            return float(str_pack(args[0]))
        if fn == "push" and len(args) == 1:
            if not 0 <= self.sp < 512:
                raise NotJudged("sp range")
            self.stack[self.sp] = self.num(args[0])
            self.sp += 1
            return None
        if fn == "pop" and not args:
            self.sp -= 1
            if not 0 <= self.sp < 512:
                raise NotJudged("sp range")
            return self.stack[self.sp]
        if fn == "peek" and not args:
            if not 0 <= self.sp - 1 < 512:
                raise NotJudged("sp range")
            return self.stack[self.sp - 1]
        if fn == "poke" and len(args) == 2:
            self.stack[self.addr(args[0])] = self.num(args[1])
            return None
        raise NotJudged(f"call {fn}")

    def invoke(self, fdef, args):
        f, G2, F2 = fdef
        if f.args.vararg or f.args.kwarg or f.args.kwonlyargs or f.args.defaults:
            raise NotJudged("function signature")
        if len(args) != len(f.args.args):
            raise NotJudged("arity")
        self.stat["calls"] += 1
        self.depth += 1
        if self.depth > 40:
            raise NotJudged("recursion")
        self.stat["max_depth"] = max(self.stat["max_depth"], self.depth)
        nl = dict(zip([a.arg for a in f.args.args], args))
        ngl = set()
        for n in ast.walk(f):
            if isinstance(n, ast.Global):
                ngl.update(n.names)
        try:
            self.block(f.body, nl, frozenset(ngl), G2, F2)
            rv = None
        except _Ret as r:
            rv = r.v
        finally:
            self.depth -= 1
        return rv


def _fmt(v):
    if isinstance(v, float) and v == v and abs(v) != math.inf and v == int(v):
        return str(int(v))
    return repr(v)
