"""Deterministic device environment shared by the reference machine and the source interpreter.

Reads are pure: a cell's content is the last value written to it, or a function
of (env seed, tick, key).  Writes update the cell (read-your-writes inside a
tick).  Time passes only at yield/sleep: the tick counter advances and a
deterministic half of the written cells reverts to fresh exogenous values.
"""
import random

from . import enums as E

_LT = None


def _lt():
    global _LT
    if _LT is None:
        m = dict(E.positional("T", "pinned"))
        _LT = dict(
            bool={m[n] for n in ("On", "Open", "Lock", "Activate", "Error") if n in m},
            small={m[n] for n in ("Mode", "Idle", "Color") if n in m},
        )
    return _LT


BASE_POOL = [0.0, 1.0, 2.0, 3.0, 0.5, -1.0, 5.0, 10.0, 100.0, 0.25, 4.0, 7.0, -2.0, 1.5, -0.5, 6.0, 8.0]


class Env:
    def __init__(self, seed, extra=()):
        self.seed = str(seed)
        self.tick = 0
        self.mem = {}
        pool = list(BASE_POOL)
        for c in extra:
            try:
                c = float(c)
            except (TypeError, ValueError):
                continue
            if c != c or abs(c) > 1e15:
                continue
            pool += [c, c + 1, c - 1, c + 0.5, c - 0.5]
        self.pool = pool
        self.reads = 0
        self.writes = 0
        self._cache = {}

    def _base(self, key):
        ck = (self.tick, key)
        v = self._cache.get(ck)
        if v is not None:
            return v
        r = random.Random(f"{self.seed}|{self.tick}|{key!r}")
        lt = _lt()
        kind = key[0]
        if kind == "l" and key[2] in lt["bool"]:
            v = float(r.randrange(0, 2))
        elif kind == "l" and key[2] in lt["small"]:
            v = float(r.randrange(0, 9))
        elif kind == "present":
            v = float(r.random() < 0.7)
        elif kind == "stk":
            v = float(r.choice(self.pool))
        else:
            v = float(r.choice(self.pool))
        if len(self._cache) > 4096:
            self._cache.clear()
        self._cache[ck] = v
        return v

    def read(self, key):
        self.reads += 1
        v = self.mem.get(key)
        if v is not None:
            return v
        return self._base(key)

    def write(self, key, v):
        self.writes += 1
        self.mem[key] = float(v)

    def advance(self):
        self.tick += 1
        if self.mem:
            for k in list(self.mem):
                if random.Random(f"{self.seed}|{self.tick}|forget|{k!r}").random() < 0.5:
                    del self.mem[k]
