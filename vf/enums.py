"""Enum tables: the tree's live enums and the snapshot taken at the pinned commit."""
import enum
import json
from functools import lru_cache

from .common import VERIF, ensure_repo_on_path

POSITIONAL = {"T": "LogicType", "S": "LogicSlotType", "B": "LogicBatchMethod", "M": "LogicReagentMode"}


@lru_cache(None)
def pinned() -> dict:
    return json.loads((VERIF / "vf" / "refdata" / "enums_pinned.json").read_text())


@lru_cache(None)
def live() -> dict:
    """{EnumName: {member: value}} incl. aliases (via __members__)."""
    ensure_repo_on_path()
    from stationeers_pytrapic import types_generated as TG

    out = {}
    for n, c in vars(TG).items():
        if isinstance(c, type) and issubclass(c, enum.Enum) and not n.startswith("_") and c.__members__:
            out[n] = {k: int(v.value) for k, v in c.__members__.items()}
    return out


@lru_cache(None)
def merged() -> dict:
    m = {k: dict(v) for k, v in pinned().items()}
    for k, v in live().items():
        m.setdefault(k, {}).update(v)
    return m


@lru_cache(None)
def dotted(which="merged") -> dict:
    """'Class.Member' -> value"""
    src = {"merged": merged, "live": live, "pinned": pinned}[which]()
    return {f"{c}.{m}": v for c, ms in src.items() for m, v in ms.items()}


def positional(kind: str, which="merged") -> dict:
    src = {"merged": merged, "live": live, "pinned": pinned}[which]()
    return src.get(POSITIONAL[kind], {})
