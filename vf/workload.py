"""Workload streams shared by the program-level checks.

A case is a pure function of (VERIF_SEED, property, stream, index).
"""
import glob
import os
from functools import lru_cache

from .common import PKG, REPO, rng, seed_env
from .gen_prog import DEFAULT_FEATS, Gen, Names
from .triggers import triggers_of

# triggers that known findings are keyed to: a clean-stream program must satisfy none of them
FINDING_TRIGGERS = {
    "main_terminates_and_calls_function",
    "for_target_bound_more_than_once",
    "alias_then_mutate_source",
    "bare_variable_argument",
    "nested_for_list",
    "call_in_for_list_body",
    "return_in_for_list_body",
    "invert_operator",
    "const_list_ge6_dynamic_index",
    "unknown_logic_type_on_generic_device",
    "ifexp_else_arm_emits_code",
    "void_function_ends_with_call_to_value_function",
    "tail_call_candidate_with_other_call",
    "tail_call_candidate_with_early_return",
    "global_read_in_expression_with_call_that_writes_it",
    "value_function_with_single_call_site_inside_function",
    "name_bound_to_enum_or_structure_and_rebound",
    "math_function_of_hash",
    "str_as_operator_operand",
    "local_bound_outside_nested_loops_read_in_inner_loop",
    "stack_object_from_register_ref_id",
}

# hazards = generator switches that trigger a known defect of the pinned tree
HAZARDS = [
    "for_list_nested",
    "for_list_call",
    "reuse_for_target",
    "copy_assign",
    "terminating_main",
    "invert",
    "const_index_ge6",
    "ifexp_else_load",
    "global_read_before_call",
    "void_tail_value",
    "tail_other_call",
    "tail_early_return",
]
HAZARD_IMPLIES = {
    "for_list_nested": {"for_list": True},
    "for_list_call": {"for_list": True},
}


@lru_cache(None)
def corpus():
    """[(name, {module: src})] read-only corpus from the repository."""
    out = []
    for f in sorted(glob.glob(str(REPO / "test" / "cases" / "*.py"))) + sorted(glob.glob(str(PKG / "examples" / "*.py"))):
        if "__init__" in f:
            continue
        try:
            out.append((os.path.basename(f), {"": open(f, encoding="utf-8").read()}))
        except Exception:
            pass
    libs = {}
    for f in sorted(glob.glob(str(REPO / "test" / "mod_libraries" / "*.py"))):
        libs[os.path.basename(f)[:-3]] = open(f, encoding="utf-8").read()
    import re

    for f in sorted(glob.glob(str(REPO / "test" / "mod_scripts" / "*.py"))):
        src = open(f, encoding="utf-8").read()
        mods = {"": src}
        for m in re.finditer(r"^from library import (.+)$", src, re.M):
            for part in m.group(1).split(","):
                name = part.strip().split(" as ")[0].strip()
                if name in libs:
                    mods[name] = libs[name]
        out.append(("mod:" + os.path.basename(f), mods))
    return out


def gen_program(prop, stream, i, feats=None, names_pool=None, **kw):
    r = rng(seed_env(), prop, stream, i)
    f = {}
    if stream.startswith("defect:"):
        hz = stream.split(":", 1)[1]
        f.update(HAZARD_IMPLIES.get(hz, {}))
        f[hz] = True
    if feats:
        f.update(feats)
    for attempt in range(8):
        if attempt:
            r = rng(seed_env(), prop, stream, i, "retry", attempt)
        names = Names(r, names_pool) if names_pool else None
        g = Gen(r, f, names=names, **kw)
        c = g.program()
        if stream.startswith("defect:") or not (set(triggers_of(c["src"])) & FINDING_TRIGGERS):
            break
    c["stream"] = stream
    c["attempts"] = attempt + 1
    return c, r


def corpus_case(i):
    lst = corpus()
    name, mods = lst[i % len(lst)]
    src = mods[""] if len(mods) == 1 else dict(mods)
    return dict(src=src, meta=dict(funcs=[], features=["corpus:" + name], corpus=name), stream="corpus")
