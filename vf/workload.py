"""Workload streams shared by the program-level checks.

A case is a pure function of (VERIF_SEED, property, stream, index).
"""
import glob
import os
from functools import lru_cache

from .common import PKG, REPO, rng, seed_env
from .gen_prog import DEFAULT_FEATS, Gen, Names

# hazards = generator switches that trigger a known defect of the pinned tree
HAZARDS = [
    "for_list_nested",
    "for_list_call",
    "reuse_for_target",
    "copy_assign",
    "terminating_main",
    "invert",
    "const_index_ge6",
    "ifexp_else_load",
]
HAZARD_IMPLIES = {
    "for_list_nested": {"for_list": True},
    "for_list_call": {"for_list": True},
}


@lru_cache(None)
def corpus():
    """[(name, {module: src})] read-only corpus from the repository."""
    out = []
    for f in sorted(glob.glob(str(REPO / "test" / "cases" / "*.py"))) + sorted(glob.glob(str(PKG / "examples" / "*.py"))):
        if "__init__" in f:
            continue
        try:
            out.append((os.path.basename(f), {"": open(f, encoding="utf-8").read()}))
        except Exception:
            pass
    libs = {}
    for f in sorted(glob.glob(str(REPO / "test" / "mod_libraries" / "*.py"))):
        libs[os.path.basename(f)[:-3]] = open(f, encoding="utf-8").read()
    import re

    for f in sorted(glob.glob(str(REPO / "test" / "mod_scripts" / "*.py"))):
        src = open(f, encoding="utf-8").read()
        mods = {"": src}
        for m in re.finditer(r"^from library import (.+)$", src, re.M):
            for part in m.group(1).split(","):
                name = part.strip().split(" as ")[0].strip()
                if name in libs:
                    mods[name] = libs[name]
        out.append(("mod:" + os.path.basename(f), mods))
    return out


def gen_program(prop, stream, i, feats=None, names_pool=None, **kw):
    r = rng(seed_env(), prop, stream, i)
    f = {}
    if stream.startswith("defect:"):
        hz = stream.split(":", 1)[1]
        f.update(HAZARD_IMPLIES.get(hz, {}))
        f[hz] = True
    if feats:
        f.update(feats)
    names = Names(r, names_pool) if names_pool else None
    g = Gen(r, f, names=names, **kw)
    c = g.program()
    c["stream"] = stream
    return c, r


def corpus_case(i):
    lst = corpus()
    name, mods = lst[i % len(lst)]
    src = mods[""] if len(mods) == 1 else dict(mods)
    return dict(src=src, meta=dict(funcs=[], features=["corpus:" + name], corpus=name), stream="corpus")
