"""Hostile source texts for C10 / C14: the in-game editor compiles on every keystroke, i.e. mostly broken programs."""
from .common import HEADER

UNSUPPORTED = [
    "class A:\n    pass\n",
    "f = lambda x: x + 1\ndb.Setting = f(1)\n",
    "try:\n    db.Setting = 1\nexcept Exception:\n    pass\n",
    "with open('x') as f:\n    pass\n",
    "db.Setting = [i for i in range(3)][0]\n",
    "x = 1\ndb.Setting = f'{x}'\n",
    "db.Setting = 7 // 2\n",
    "db.Setting = 1 | 2\n",
    "db.Setting = +d0.Setting\n",
    "async def f():\n    pass\n",
    "if (n := 3) > 2:\n    db.Setting = n\n",
    "match d0.Setting:\n    case 1:\n        db.Setting = 1\n",
    "def f(*a, **k):\n    pass\nf(1)\n",
    "del db\n",
    "assert d0.Setting\n",
    "raise ValueError()\n",
    "def g():\n    yield 1\ng()\n",
    "a, b = 1, 2\ndb.Setting = a\n",
    "a = b = 3\ndb.Setting = a\n",
    "x = {1: 2}\n",
    "x = {1, 2}\n",
    "db.Setting = 1 if True else 2 if False else 3\n",
    "while d0.Setting:\n    pass\n",
    "for c in 'abc':\n    pass\n",
    "for i in range(1, 2, 3, 4):\n    pass\n",
    "import os\nos.system('true')\n",
    "from library import nothing\nnothing.f()\n",
    "db.Setting = d0.Setting.Average.Sum\n",
    "d9.Setting = 1\n",
    "db.Setting = undefined_function(3)\n",
    "db.Setting = d0\n",
    "db = 5\n",
    "def sleep(x):\n    pass\nsleep(1)\n",
    "x = Furnace\nx.On = 1\n",
    "Furnace.On = 1\n",
    "db.Setting = Furnaces.On\n",
    "global x\nx = 1\n",
    "def f():\n    return\n    db.Setting = 1\nf()\n",
    "@constexpr\n@constexpr\ndef f():\n    return 1\ndb.Setting = f()\n",
    "@staticmethod\ndef f():\n    return 1\ndb.Setting = f()\n",
    "db.Setting = (1).real\n",
    "db.Setting = 'abc'\n",
    "db.Setting = None\n",
    "db.Setting = 1j\n",
    "db.Setting = ...\n",
    "db.Setting = b'x'\n",
    "x: int = 3\ndb.Setting = x\n",
    "db.Setting = HASH(d0.Setting)\n",
    "db.Setting = STR(1)\n",
    "db.Setting = stack[1:2]\n",
    "stack = 5\n",
    "def f(a=1):\n    return a\ndb.Setting = f()\n",
    "def f(a):\n    return a\ndb.Setting = f(a=1)\n",
    "def f(a):\n    return a\ndb.Setting = f()\n",
    "def f(a):\n    return a\ndb.Setting = f(1, 2)\n",
    "def f():\n    def g():\n        return 1\n    return g()\ndb.Setting = f()\n",
    "return 5\n",
    "break\n",
    "continue\n",
    "while True:\n    def f():\n        pass\n",
]
RECURSION = [
    "def f(a):\n    return f(a - 1)\ndb.Setting = f(3)\n",
    "def f(a):\n    return g(a)\ndef g(a):\n    return f(a)\ndb.Setting = f(1)\n",
    "def f(a):\n    f(a)\nwhile True:\n    f(1)\n    f(2)\n",
    "def f(a):\n    if a > 0:\n        f(a - 1)\n    db.Setting = a\nf(3)\nf(2)\n",
    "def f(a):\n    while a > 0:\n        f(a - 1)\n        a -= 1\n    db.Setting = a\nwhile True:\n    f(d0.Setting)\n    f(1)\n",
    "def f(a):\n    db.Setting = a\n    f(a + 1)\nf(0)\n",
    "def f(a):\n    return a * f(a - 1)\ndb.Setting = f(4)\ndb.Mode = f(2)\n",
    "def g(a):\n    db.Mode = a\ndef f(a):\n    g(a)\n    if d0.On:\n        f(a)\nwhile True:\n    f(1)\n    f(2)\n",
]
LUA = [
    "-- lua comment\nlocal x = 1\n",
    "require('x')\nprint('hi')\n",
    "--[[ block ]]\nfunction f() end\n",
    "  -- indented lua\n",
]
PRAGMA = [
    "# pytrapic: __class__\ndb.Setting = 1\n",
    "# pytrapic: __init__, __dict__, no-__eq__\ndb.Setting = 1\n",
    "# pytrapic: compact, no_compact, compact\ndb.Setting = HASH('x')\n",
    "# pytrapic:\ndb.Setting = 1\n",
    "# pytrapic: ,,,,\n",
    "#pytrapic:no-\n",
    "# pytrapic: " + "x" * 5000 + "\n",
]
CONSTEXPR = [
    "@constexpr\ndef f(a):\n    return a * 2\ndb.Setting = f(21)\n",
    "@constexpr\ndef f(a):\n    raise ValueError('boom')\ndb.Setting = f(1)\n",
    "@constexpr\ndef f(a):\n    print('side output')\n    return 5\ndb.Setting = f(1)\n",
    "@constexpr\ndef f(a):\n    while True:\n        pass\ndb.Setting = f(1)\n",
    "@constexpr\ndef f(a):\n    return object()\ndb.Setting = f(1)\n",
    "@constexpr\ndef f(a):\n    return {1, 2}\ndb.Setting = f(1)\n",
    "@constexpr\ndef f(a):\n    import sys\n    sys.exit(3)\ndb.Setting = f(1)\n",
    "@constexpr\ndef f(a):\n    import time\n    time.sleep(5)\n    return 1\ndb.Setting = f(1)\n",
    "@constexpr\ndef f(a):\n    return 'a string'\ndb.Setting = f(1)\n",
    "@constexpr\ndef f(a):\n    return [1, 2, 3]\ndb.Setting = f(1)[d0.Idle % 3]\n",
    "@constexpr\ndef f(a):\n    return None\ndb.Setting = f(1)\n",
    "@constexpr\ndef f(a):\n    return float('nan')\ndb.Setting = f(1)\n",
    "@constexpr\ndef f(a):\n    return 10 ** 400\ndb.Setting = f(1)\n",
    "@constexpr\ndef f(a):\n    return open('/etc/passwd').read()\ndb.Setting = f(1)\n",
    "@constexpr\ndef f(a):\n    return eval('1+1')\ndb.Setting = f(1)\n",
    "@constexpr\ndef f(a):\n    import os\n    os.fork()\n    return 1\ndb.Setting = f(1)\n",
    "@constexpr\ndef f(a):\n    import subprocess, sys\n    subprocess.Popen([sys.executable, '-c', 'import time; time.sleep(3)'])\n    return 1\ndb.Setting = f(1)\n",
    "@constexpr\ndef f(a)\n    return 1\n",
    "@constexpr\ndef f(a):\n    return a\ndb.Setting = f(undefined_name)\n",
    "@constexpr\ndef f(a):\n    return a\ndb.Setting = f(d0.Setting)\n",
    "@emit_code\ndef f(a):\n    return ['move r0 1', 'yield']\nf(1)\n",
    "@emit_code\ndef f(a):\n    return 5\nf(1)\n",
]

JUNK_CHARS = "\x00\ufeff\ud800\udfff\x0c\x1b\u2028\u202e\U0001F600\t\r"


def mutate(src, r):
    """one random edit of a valid program: truncation, deletion, duplication, swap, junk insertion"""
    k = r.random()
    n = len(src)
    if n == 0:
        return src
    if k < 0.35:
        return src[: r.randrange(n)]
    if k < 0.5:
        a = r.randrange(n)
        b = min(n, a + r.randint(1, 12))
        return src[:a] + src[b:]
    if k < 0.6:
        a = r.randrange(n)
        b = min(n, a + r.randint(1, 20))
        return src[:b] + src[a:b] + src[b:]
    if k < 0.7:
        a = r.randrange(n)
        return src[:a] + r.choice(JUNK_CHARS) * r.randint(1, 3) + src[a:]
    if k < 0.8:
        toks = src.split(" ")
        if len(toks) > 2:
            i = r.randrange(len(toks) - 1)
            toks[i], toks[i + 1] = toks[i + 1], toks[i]
        return " ".join(toks)
    if k < 0.9:
        a = r.randrange(n)
        return src[:a] + r.choice(["(", ")", ":", "\n", "    ", "'", '"', "\\", "#", "=", ".", ",", "[", "]"]) + src[a:]
    lines = src.split("\n")
    i = r.randrange(len(lines))
    lines[i] = ("    " if r.random() < 0.5 else "") + lines[i].lstrip() if r.random() < 0.5 else lines[i] + " \\"
    return "\n".join(lines)


def special(r):
    k = r.random()
    if k < 0.15:
        d = r.choice([50, 200, 1000, 3000])
        return "db.Setting = " + "(" * d + "1" + ")" * d + "\n"
    if k < 0.25:
        d = r.choice([50, 500, 3000])
        return "db.Setting = " + "-" * d + "1\n"
    if k < 0.35:
        d = r.choice([20, 60, 120])
        return "".join("    " * i + "if d0.On:\n" for i in range(d)) + "    " * d + "db.Setting = 1\n"
    if k < 0.45:
        return "db.Setting = " + " + ".join(["d0.Setting"] * r.choice([20, 100, 300])) + "\n"
    if k < 0.55:
        return "".join(f"d{i % 6}.Setting = {i}\n" for i in range(r.choice([200, 600, 1000])))
    if k < 0.65:
        return "".join(r.choice("abc \n\t(){}[]:=+-*/.,'\"#\\0123456789" + JUNK_CHARS) for _ in range(r.randint(1, 400)))
    if k < 0.75:
        return "".join(chr(r.randrange(0x20, 0x3000)) for _ in range(r.randint(1, 200)))
    if k < 0.8:
        return "\n" * r.randint(0, 50) + " " * r.randint(0, 10)
    if k < 0.9:
        n = r.choice([3, 30, 60])
        return "".join(f"def f{i}(a):\n    return a + {i}\n" for i in range(n)) + "".join(f"db.Setting = f{i}({i})\n" for i in range(n))
    if k < 0.95:
        # number literals of extreme size (Python refuses to print ints of more than 4300 digits), in positions
        # where the value is used, printed in an error message, or folded
        n = r.choice([17, 400, 4299, 4300, 4301, 5000, 20000])
        lit = r.choice(["0x" + "f" * n, "9" * n, "0b" + "1" * n, "1" + "0" * n + ".5", "1e" + "9" * min(n, 6), "0." + "0" * n + "1"])
        return r.choice(["x = nofunc({0})\n", "db.Setting = {0}\n", "x = {0}\ny = undefined_name + x\n", "db.Setting = {0} + 1\n", "db.Setting = HASH({0})\n", "def f(a):\n    return a\ndb.Setting = f({0}, {0})\n", "d0.Setting = -{0} % 7\n"]).format(lit)
    return "x = " + repr("y" * r.choice([10, 10000, 200000])) + "\n"
