"""Hand-written IC10 ISA table and the loader (static half of the sanitizer).

Operand kinds:
  R dest register      V value            D device (d0-d5, db, alias, ref id)
  I reference id (V)   T LogicType        S LogicSlotType    B batch mode
  M reagent mode       J absolute target  O relative offset  N new name
  A alias target (register or device)
"""
import json
from functools import lru_cache

from . import enums, tok
from .common import REPO

ISA = {}


def _op(names, sig=""):
    for n in names.split():
        ISA[n] = sig.split()


_op("alias", "N A")
_op("define", "N V")
_op("hcf yield")
_op("sleep", "V")
_op("abs ceil exp floor log move round sqrt trunc acos asin atan cos sin tan not", "R V")
_op("add div pow max min mod mul sub atan2 and nor or sla sll sra srl xor", "R V V")
_op("rand peek pop", "R")
_op("lerp select ext ins", "R V V V")
_op("clr", "D")
_op("clrd", "I")
_op("get", "R D V")
_op("getd", "R I V")
_op("poke", "V V")
_op("push", "V")
_op("put", "D V V")
_op("putd", "I V V")
_op("l", "R D T")
_op("lr", "R D M V")
_op("ls", "R D V S")
_op("s", "D T V")
_op("ss", "D V S V")
_op("rmap", "R D V")
_op("lb", "R V T B")
_op("lbn", "R V V T B")
_op("lbs", "R V V S B")
_op("lbns", "R V V V S B")
_op("sb", "V T V")
_op("sbn", "V V T V")
_op("sbs", "V V S V")
_op("sdns sdse", "R D")
_op("j jal", "J")
_op("jr", "O")
for _c in ("eq", "ne", "lt", "le", "gt", "ge"):
    _op(f"s{_c}", "R V V")
    _op(f"s{_c}z", "R V")
    _op(f"b{_c} b{_c}al", "V V J")
    _op(f"br{_c}", "V V O")
    _op(f"b{_c}z b{_c}zal", "V J")
    _op(f"br{_c}z", "V O")
for _c in ("ap", "na"):
    _op(f"s{_c}", "R V V V")
    _op(f"s{_c}z", "R V V")
    _op(f"b{_c} b{_c}al", "V V V J")
    _op(f"br{_c}", "V V V O")
    _op(f"b{_c}z b{_c}zal", "V V J")
    _op(f"br{_c}z", "V V O")
_op("snan snanz", "R V")
_op("bnan", "V J")
_op("brnan", "V O")
_op("bdse bdns bdseal bdnsal", "D J")
_op("brdse brdns", "D O")
_op("bdnvl bdnvs", "D T J")

HAS_OUTPUT = {k for k, v in ISA.items() if v and v[0] == "R"}
JUMPS = {k for k, v in ISA.items() if v and v[-1] in ("J", "O")}


@lru_cache(None)
def repo_opcodes():
    try:
        return set(json.loads((REPO / "webapp" / "src" / "ic10.json").read_text())["instructions"])
    except Exception:
        return None


def selfcheck():
    """ISA table vs the repository's own opcode list: harness consistency."""
    ops = repo_opcodes()
    if ops is None:
        return ["ic10.json unreadable"]
    problems = []
    if set(ISA) - ops:
        problems.append(f"in ISA table but not in ic10.json: {sorted(set(ISA) - ops)}")
    if ops - set(ISA):
        problems.append(f"in ic10.json but not in ISA table: {sorted(ops - set(ISA))}")
    return problems


# ------------------------------------------------------------------------------
# Loader


class Program:
    """Parsed IC10 text.  lines[i] = token list (instruction), None (label/blank)."""

    def __init__(self, code: str):
        self.code = code
        self.raw = []
        self.lines = []
        self.comments = []
        self.labels = {}
        self.label_dups = []
        self.aliases = {}
        self.defines = set()
        for i, (toks, comment, raw) in enumerate(tok.program_lines(code)):
            self.raw.append(raw)
            self.comments.append(comment)
            if tok.is_label_def(toks):
                name = toks[0][:-1]
                if name in self.labels:
                    self.label_dups.append((name, i))
                else:
                    self.labels[name] = i
                self.lines.append(None)
            elif not toks:
                self.lines.append(None)
            else:
                self.lines.append(toks)
                if toks[0] == "alias" and len(toks) == 3:
                    self.aliases[toks[1]] = toks[2]
                elif toks[0] == "define" and len(toks) == 3:
                    self.defines.add(toks[1])

    @property
    def n(self):
        return len(self.lines)

    def instructions(self):
        return [(i, t) for i, t in enumerate(self.lines) if t is not None]


import re as _re

_REPR = _re.compile(r"^[A-Za-z_][\w.]*\(.*=")  # dataclass / object repr such as IC10Operand(value=...)
_PY_SPELLINGS = {"None": "python-None", "True": "python-bool", "False": "python-bool", "nan": "python-float", "inf": "python-float", "-inf": "python-float"}


def classify(t: str, prog: Program):
    """Token class independent of position."""
    if t == "":
        return "empty"
    if t in _PY_SPELLINGS:
        return _PY_SPELLINGS[t]
    if t.startswith("__register."):
        return "virtual-register"
    if t.startswith("<") or "object at" in t or _REPR.match(t):
        return "repr"
    if tok.reg_index(t) is not None:
        return "reg"
    if tok.is_device(t):
        return "dev"
    num = tok.parse_number(t)
    if num is not None:
        v, form = num
        if form == "hex" and len(t) - 1 > 16:
            return "hex-too-long"
        return {"dec": "num", "exp": "num-exp", "hex": "hex", "bin": "bin"}[form]
    if tok.is_hash(t):
        return "hash"
    if tok.is_str(t):
        return "str"
    if t in prog.aliases:
        tgt = prog.aliases[t]
        for _ in range(8):
            if tgt in prog.aliases and tgt != t:
                tgt = prog.aliases[tgt]
        if tok.reg_index(tgt) is not None:
            return "alias-reg"
        if tok.is_device(tgt):
            return "alias-dev"
        return "alias-other"
    if t in prog.defines:
        return "define"
    if t in prog.labels:
        return "label"
    if t in enums.dotted():
        return "enum"
    if any(t in enums.positional(k) for k in ("T", "S", "B", "M")):
        return "bare-enum"
    if tok.is_ident(t):
        return "ident"
    return "garbage"


_VALUE_OK = {"reg", "num", "num-exp", "hex", "bin", "hash", "str", "alias-reg", "define", "label", "enum"}


def _kind_ok(kind, t, cls, prog):
    if kind == "R":
        return cls in ("reg", "alias-reg")
    if kind in ("V", "I", "O"):
        # a bare LogicType/SlotType/BatchMethod name standing where a value is expected: whether the game
        # accepts it is not known to the harness -> recorded by the callers' counters, not judged
        return cls in _VALUE_OK or cls == "bare-enum"
    if kind == "D":
        # d0-d5/db, an alias, or a reference id (number / register holding one)
        return cls in ("dev", "alias-dev") or cls in ("reg", "num", "hex", "alias-reg", "define")
    if kind in ("T", "S", "B", "M"):
        if cls in ("ident", "bare-enum"):
            return t in enums.positional(kind)
        return cls in ("num", "hex", "reg", "alias-reg", "define", "enum")
    if kind == "J":
        return cls in ("label", "num", "reg", "alias-reg", "define")
    if kind == "N":
        return cls in ("ident", "alias-reg", "alias-dev", "alias-other", "define") and t not in ISA
    if kind == "A":
        return cls in ("reg", "dev", "alias-reg", "alias-dev")
    return False


def load(code: str):
    """-> (Program, events).  An event is a dict with a structured 'sig' tuple."""
    prog = Program(code)
    ev = []

    def add(kind, line, op="", idx=-1, cls="", token=""):
        ev.append(dict(monitor="loader", event=kind, line=line, opcode=op, operand=idx, token_class=cls, token=token, text=prog.raw[line] if 0 <= line < len(prog.raw) else ""))

    for name, i in prog.label_dups:
        add("duplicate-label", i, token=name)
    for i, toks in prog.instructions():
        op = toks[0]
        if op not in ISA:
            add("unknown-opcode", i, op=op, token=op)
            continue
        sig = ISA[op]
        args = toks[1:]
        if len(args) != len(sig):
            add("operand-count", i, op=op, idx=len(args), cls=f"want{len(sig)}")
            # still classify what is there: forbidden spellings matter
        for k, t in enumerate(args):
            cls = classify(t, prog)
            kind = sig[k] if k < len(sig) else "V"
            if cls in ("python-None", "python-bool", "python-float", "virtual-register", "repr", "empty", "garbage", "hex-too-long", "alias-other"):
                add("bad-token", i, op=op, idx=k, cls=cls, token=t)
                continue
            if len(args) != len(sig):
                continue
            if not _kind_ok(kind, t, cls, prog):
                if kind == "J" and cls == "ident":
                    add("undefined-label", i, op=op, idx=k, cls=cls, token=t)
                elif cls == "ident":
                    add("unknown-symbol", i, op=op, idx=k, cls=f"{kind}:{cls}", token=t)
                else:
                    add("operand-kind", i, op=op, idx=k, cls=f"{kind}:{cls}", token=t)
                continue
            if kind == "J" and cls == "num":
                v = tok.parse_number(t)[0]
                if v != int(v) or not (0 <= int(v) <= prog.n):
                    add("jump-out-of-program", i, op=op, idx=k, cls=cls, token=t)
    return prog, ev


def sig_of(e: dict):
    return (e["event"], e["opcode"], e["operand"], e["token_class"])
