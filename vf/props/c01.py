"""C01 — compiled IC10 behaves like the Python source (reference machine vs reference interpreter, effect traces)."""
from .. import gen_shapes, harness as H
from .. import pool, workload
from ..common import HEADER, opts_from_bits, rng, seed_env, sha
from ._exec import CORNERS, judge_program

ID = "C01"
LEVEL = "exploration"
RULE = (
    "a case is a source in the judged subset (DESIGN.md 2.4) compiled under 3-4 option vectors (the two of the "
    "test-suite plus random ones) and executed on the reference IC10 machine under 2-4 device environments whose "
    "value pools contain the program's literals and their neighbours; the effect trace (device/slot/batch writes, "
    "foreign stack writes, yields, sleeps) is compared element-wise with the trace of the reference interpreter "
    "run on the source under the same environment; streams: random programs, control-flow skeletons with a unique "
    "marker write at every program point, echo/call-graph, register-pressure and layout-mutated programs, corpus; "
    "non-trivial = both sides produced >= 3 effects and they were compared; distinct = sha1(source)"
)
ASSUMPTIONS = [
    "reference IC10 machine + arithmetic kernel within its trusted domain (DESIGN.md 2.2); the interpreter shares that kernel, so the check decides control flow, data flow, scoping, call/return and effect order/values, not the game's floating-point corner cases",
    "device model: reads are pure, writes are read back within a tick, a deterministic half of the written cells reverts at each yield/sleep; the 128-lines-per-tick pre-emption is not modelled",
    "not judged (counted as not_judged): user data at stack addresses outside 64..447, non-boolean operands of and/or, chained comparisons, keyword arguments, reads of possibly-unassigned names",
]
TRUSTED = ["vf/ic10_vm.py", "vf/pyref.py", "vf/ic10_arith.py", "vf/env.py"]


def plan(tier, seed):
    q = tier == "quick"
    nsk = gen_shapes.n_skeletons(2)
    tasks = (
        pool.batches("gen", 700 if q else 12000, 10)
        + pool.batches("skel", 600 if q else nsk, 20)
        + pool.batches("echo", 250 if q else 4000, 10)
        + pool.batches("tail", 100 if q else 2000, 10)
        + pool.batches("pressure", 150 if q else 2500, 10)
        + pool.batches("layout", 150 if q else 2500, 10)
        + pool.batches("corpus", len(workload.corpus()), 2)
    )
    for hz in workload.HAZARDS:
        tasks += pool.batches(f"defect:{hz}", 20 if q else 300, 10)
    return dict(tasks=tasks, nworkers=14, time_cap=88 if q else 880)


def worker_init():
    H.repo()


def _vectors(r, n=4):
    vs = [dict(compact=False, inline_functions=False, append_version=False, remove_labels=False), dict(compact=True, inline_functions=True, append_version=False, remove_labels=True)]
    vs.append(dict(r.choice(CORNERS), append_version=False, remove_labels=r.random() < 0.5))
    while len(vs) < n:
        vs.append(opts_from_bits(r.randrange(256)))
    return vs


def gen_case(task, i):
    st = task["stream"]
    r = rng(seed_env(), ID, st, i)
    envs = [f"{i}:0", f"{i}:1"]
    if st == "skel":
        k = i + seed_env() * 7919
        sk = gen_shapes.skeleton_program(k, 2)
        if sk is None:
            sk = gen_shapes.skeleton_program(k + 1, 2) or gen_shapes.skeleton_program(0, 2)
        return dict(src=sk[0], vectors=_vectors(r, 3), env_seeds=envs + [f"{i}:2", f"{i}:3"], stream=st, info=sk[1])
    if st == "echo":
        src = gen_shapes.echo_program(r)
    elif st == "tail":
        src = gen_shapes.tail_program(r)
    elif st == "pressure":
        src = gen_shapes.pressure_program(r)[0]
    elif st == "layout":
        base = workload.gen_program(ID, "gen", i + 100000)[0]["src"]
        src = gen_shapes.layout_mutation(base, r)
    elif st == "corpus":
        src = workload.corpus_case(i)["src"]
    else:
        src = workload.gen_program(ID, st, i)[0]["src"]
    return dict(src=src, vectors=_vectors(r), env_seeds=envs, stream=st)


def check_case(case):
    return judge_program(case, "trace")


def run_case(task, i):
    c = gen_case(task, i)
    r = check_case(c)
    if r["violations"]:
        r["case"] = c
    elif i % 40:
        r.pop("sample", None)
    return r


def finish(agg, tier):
    c = agg["counters"]
    if c.get("same", 0) + c.get("truncated", 0) < 500 or c.get("effects_compared", 0) < 20000:
        return dict(inconclusive=f"too little compared: {c.get('same', 0)} equal traces, {c.get('effects_compared', 0)} effects")
    return None
