"""C09 — emitted text is loadable IC10 (ISA-table loader + literal read-back + version-note monitor)."""
import inspect
import math
import struct

from .. import harness as H
from .. import ic10_isa, pool, tok, workload
from ..common import HEADER, opts_from_bits, opts_key, rng, seed_env, sha, suite_vectors
from ..triggers import triggers_of

ID = "C09"
LEVEL = "exploration"
RULE = (
    "each case is a source compiled under several option vectors; every successful result is passed through the "
    "ISA-table loader (opcode, operand count/kind, registers, forbidden spellings, labels, jump targets) and the "
    "version-note monitor; the literal stream additionally reads back each emitted numeric literal against the value "
    "the harness put into the source; non-trivial = successful result with >= 1 instruction; distinct = sha1(source, options)"
)
ASSUMPTIONS = [
    "IC10 numeric syntax: decimal with optional fraction, optional exponent (C# double.TryParse accepts it; counted separately), $ + up to 16 hex digits, % binary",
    "a bare LogicType/LogicSlotType/LogicBatchMethod name standing in a plain value position is counted (bare_enum_in_value_position) but not judged",
    "a register or number in a device position is accepted as 'a reference id' as the property text allows",
    "hex literals in [2^63, 2^64) are recorded, not judged (two's-complement reading in the game is uncertain)",
]
TRUSTED = ["vf/ic10_isa.py ISA table (opcode set cross-checked with webapp/src/ic10.json)", "vf/tok.py"]

STREAMS = ["gen", "corpus", "literal", "intrinsic", "forms", "note"]


def plan(tier, seed):
    q = tier == "quick"
    tasks = (
        pool.batches("gen", 1200 if q else 15000, 20)
        + pool.batches("corpus", len(workload.corpus()), 4)
        + pool.batches("literal", 2500 if q else 40000, 100)
        + pool.batches("intrinsic", _n_intrinsics() * (2 if q else 8), 40)
        + pool.batches("forms", 600 if q else 6000, 30)
        + pool.batches("note", 300 if q else 3000, 30)
    )
    for hz in ("invert", "for_list_break"):
        tasks += pool.batches(f"defect:{hz}", 40 if q else 300, 20)
    return dict(tasks=tasks, nworkers=14, time_cap=85 if q else 850)


def worker_init():
    H.repo()


# ------------------------------------------------------------------------------ workloads
def _n_intrinsics():
    return len(_WRAPPERS)


# wrappers that can be called as statements/expressions from the dialect with well-typed arguments
_ARG = dict(V=["1", "2.5", "d0.Setting", "x"], D=["d0", "db", "d3"], T=["LogicType.Setting", "LogicType.On"], S=["LogicSlotType.Occupied"], B=["LogicBatchMethod.Average", "LogicBatchMethod.Sum"], M=["LogicReagentMode.Contents"], I=["1234", "x"])
_WRAPPERS = sorted(k for k in ic10_isa.ISA if k not in ("alias", "define", "j", "jal", "jr") and not k.startswith("b"))


def _intrinsic_case(i, r):
    op = _WRAPPERS[i % len(_WRAPPERS)]
    sig = ic10_isa.ISA[op]
    has_out = bool(sig) and sig[0] == "R"
    kinds = sig[1:] if has_out else sig
    args = []
    for k in kinds:
        if k in ("H",):
            k = "V"
        if op in ("lb", "lbn", "lbs", "lbns", "sb", "sbn", "sbs") and k == "V" and len(args) == 0:
            args.append('HASH("StructureBattery")')
            continue
        args.append(r.choice(_ARG.get(k, _ARG["V"])))
    name = {"yield": "yield_", "and": "and_", "or": "or_", "not": "not_"}.get(op, op)
    call = f"{name}({', '.join(args)})"
    body = "x = d1.Setting\nx += 1\n" + (f"db.Setting = {call}\n" if has_out else f"{call}\n")
    return dict(src=HEADER + body, vectors=[opts_from_bits(r.randrange(256)), opts_from_bits(r.randrange(256))], stream="intrinsic", info=dict(op=op))


_FORMS = [
    "db.Setting = d0.Setting\n",
    "d{n}.On = 1\n",
    "x = Furnace(d{n})\nx.Open = x.Temperature > 100\n",
    "x = Furnace(d{n})\ndb.Setting = x.Import.Occupied\n",
    "x = Furnace(d{n})\ndb.Setting = x.slot1.Quantity\n",
    "Furnaces.On = d0.Setting\n",
    'WallLights["{s}"].On = 1\n',
    'db.Setting = WallLights["{s}"].On.Maximum\n',
    "db.Setting = Batteries.Average.Charge\n",
    "db.Setting = Batteries.Charge.Sum\n",
    'b = Batteries["{s}"].Average\ndb.Setting = b.Charge + b.Ratio\n',
    "db.Setting = Furnaces.Import.Occupied.Sum\n",
    "s = Stack(d{n})\ns[{a}] = 5\ndb.Setting = s[{a}]\n",
    "s = Stack(ref_id={id})\ns[{a}] = 5\ndb.Setting = s[{a}]\n",
    "r = d0.ReferenceId\ns = Stack(ref_id=r)\ns[1] = 2\n",
    "stack[{a}] = d0.Setting\ndb.Setting = stack[{a}]\n",
    "push(d0.Setting)\ndb.Setting = pop()\n",
    "db.Setting = HASH(\"{s}\")\n",
    "db.Setting = STR(\"{t}\")\n",
    "x = WallHeater(d{n}, alias=True)\nx.On = 1\n",
    "h = Device(d{n})\nh.Setting = 1\n",
    "db.Setting = Color.Red + SortingClass.Ores\n",
    "d0.Mode = DisplayMode.Celsius\n",
    "if sdse(d{n}):\n    db.Setting = 1\n",
    "if sdns(d{n}):\n    db.Setting = 1\nelse:\n    db.Setting = 2\n",
    "db.Setting = d0.Setting if d1.On else d2.Setting\n",
    "db.Setting = [1, 2, 3][d0.Idle % 3]\n",
    "for i in range(3):\n    db.Setting = i\n",
    "x = 0\nwhile x < 3:\n    x += 1\n    db.Setting = x\n",
    "def f(a, b):\n    return a * b\ndb.Setting = f(d0.Setting, 2)\ndb.Mode = f(d1.Setting, 3)\n",
    "define(\"K\", 5)\n",
    "alias(\"sensor\", d{n})\n",
    "sleep(d0.Setting)\n",
    "db.Setting = pi * tau\n",
    "db.Setting = -d0.Setting\n",
    "db.Setting = not d0.On\n",
    "db.Setting = (d0.On and d1.On) or d2.On\n",
    "db.Setting = d0.Idle << 2\n",
    "db.Setting = d0.Setting ** 2\n",
    "db.Setting = sqrt(abs(d0.Setting)) + sin(1) + atan2(d0.Setting, 2)\n",
]
_NAMES = ["Potatos", "Bank1", "Some Name", "x", "A#B", "O2", "it's", "tab\there", "ünï", "\U0001F600"]


def _forms_case(i, r):
    body = ""
    for _ in range(r.randint(1, 3)):
        f = _FORMS[(i + r.randrange(len(_FORMS))) % len(_FORMS)]
        body += f.format(n=r.randrange(6), s=r.choice(_NAMES), t=r.choice(["Day", "ab", "Night", "A B", "xyzw12"]), a=r.randrange(64, 200), id=r.choice(["1234", "0x2355", "77"]))
    # the same names may be bound twice across snippets -> the transpiler may reject; that is fine
    return dict(src=HEADER + body, vectors=[opts_from_bits(r.randrange(256)) for _ in range(3)] + suite_vectors()[:1], stream="forms")


def _literal_value(i, r):
    k = r.random()
    if k < 0.25:
        e = r.randrange(-1074, 1024)
        m = r.choice([1.0, 1.5, 1 + 2**-52, 2 - 2**-52, r.uniform(1, 2)])
        v = math.ldexp(m, e)
        if r.random() < 0.5:
            v = -v
        return v
    if k < 0.4:
        return r.choice([0.1, 0.09999999999999999, 0.10000000000000002, 10000, 10001, 9999, 2**53, 2**53 + 2, 2**63 - 1, 2**63, 2**64 - 1, 2**64, 1e15, 1e16, 1e17, 1e21, 1e22, 123456789012345678, 0.5, 1 / 3, 2 / 3, 1e-5, 1.5e-7, 5e-324, 1.7976931348623157e308, -0.0, 0.0, 100000, 65535, 65536, 4294967295, 4294967296, -10001, -2147483648, 3.141592653589793]) * (1 if r.random() < 0.8 else -1)
    if k < 0.6:
        return r.randrange(-(2**40), 2**40)
    if k < 0.7:
        return r.randrange(0, 2**62)
    if k < 0.85:
        return round(r.uniform(-1000, 1000), r.randrange(0, 17))
    if k < 0.95:
        return float(r.randrange(-(10**6), 10**6))  # integer-valued float
    return struct.unpack("<d", struct.pack("<Q", r.getrandbits(64) & 0x7FEFFFFFFFFFFFFF))[0]


def _literal_case(i, r):
    v = _literal_value(i, r)
    if isinstance(v, float) and (v != v or abs(v) == math.inf):
        v = 1.5
    return dict(src=HEADER + f"db.Setting = {v!r}\nd0.Setting = d1.Setting + {v!r}\n", vectors=[dict(append_version=False, compact=bool(i & 1))], stream="literal", literal=repr(v))


def _note_case(i, r):
    n = 40 + (i % 60)
    name = "N" + "x" * max(0, n - 24)
    body = f'db.Setting = HASH("{name}")\n' + ("d0.On = 1\n" if r.random() < 0.7 else "")
    if r.random() < 0.3:
        body = f"# {'c' * n}\n" + body
    return dict(src=HEADER + body, vectors=[dict(append_version=True, compact=False, original_code_as_comment=r.random() < 0.3, generated_comments=r.random() < 0.3, remove_labels=r.random() < 0.5)], stream="note")


def gen_case(task, i):
    st = task["stream"]
    r = rng(seed_env(), ID, st, i, "v")
    if st == "gen" or st.startswith("defect:"):
        c, _ = workload.gen_program(ID, st, i)
        vs = suite_vectors() + [opts_from_bits(r.randrange(256)) for _ in range(2)]
        return dict(src=c["src"], vectors=vs, stream=st)
    if st == "corpus":
        c = workload.corpus_case(i)
        return dict(src=c["src"], vectors=suite_vectors() + [opts_from_bits(r.randrange(256)) for _ in range(4)], stream=st)
    if st == "literal":
        return _literal_case(i, r)
    if st == "intrinsic":
        return _intrinsic_case(i, r)
    if st == "forms":
        return _forms_case(i, r)
    return _note_case(i, r)


# ------------------------------------------------------------------------------ monitors
def check_note(code, counters):
    """version note: a trailing comment, at most one, its line within 90 characters"""
    out = []
    lines = code.split("\n")
    hits = [(k, l) for k, l in enumerate(lines) if "Generated by PyTrapIC" in l]
    if len(hits) > 1:
        out.append(dict(event="version-note-repeated", n=len(hits)))
    for k, l in hits:
        counters["notes_checked"] += 1
        toks, comment = tok.split_line(l)
        if comment is None or "Generated by PyTrapIC" not in comment:
            out.append(dict(event="version-note-not-a-comment", line=k, text=l[:120]))
        if len(l) > 90:
            out.append(dict(event="version-note-line-too-long", line=k, length=len(l)))
        counters["note_line_len_max"] = max(counters["note_line_len_max"], len(l))
    return out


def check_literals(code, want, counters):
    """the literal stream: `s db Setting <lit>` must read back as the value in the source"""
    out = []
    for toks, _c, raw in tok.program_lines(code):
        if len(toks) == 4 and toks[0] == "s" and toks[1] == "db" and toks[2] in ("Setting", "12"):
            t = toks[3]
            num = tok.parse_number(t)
            counters["literals_read_back"] += 1
            if num is None:
                out.append(dict(event="literal-not-ic10-syntax", token=t, want=want))
                continue
            v, form = num
            counters["literal_form_" + form] += 1
            if form == "hex" and len(t) - 1 > 16:
                out.append(dict(event="literal-hex-too-long", token=t[:40], want=want))
                continue
            w = eval(want)
            if form == "hex" and v >= 2**63:
                counters["literal_hex_ge_2p63_unjudged"] += 1
                continue
            exact = isinstance(w, int) and abs(w) <= 2**53 or (isinstance(w, float) and w == int(w) and abs(w) <= 2**53)
            if exact:
                ok = float(v) == float(w)
            else:
                ok = float(v) == float(w) or abs(float(v) - float(w)) <= 1e-15 * abs(float(w))
            if not ok:
                out.append(dict(event="literal-value-differs", token=t[:40], want=want, read_back=repr(v)))
    return out


def check_case(case):
    src = case["src"]
    cnt = dict(compiles=0, successes=0, errors=0, lines_loaded=0, instructions_loaded=0, labels=0, notes_checked=0, note_line_len_max=0, literals_read_back=0, literal_form_dec=0, literal_form_exp=0, literal_form_hex=0, literal_form_bin=0, literal_hex_ge_2p63_unjudged=0, bare_enum_in_value_position=0, refid_in_device_position=0)
    vio = []
    keys = []
    feats = set([case.get("stream", "?")])
    trig = None
    sample = None
    for o in case["vectors"]:
        cnt["compiles"] += 1
        r = H.compile_src(src, o)
        if not isinstance(r, dict) or not isinstance(r.get("code"), str):
            cnt["errors"] += 1
            continue
        cnt["successes"] += 1
        code = r["code"]
        prog, events = ic10_isa.load(code)
        cnt["lines_loaded"] += prog.n
        ins = prog.instructions()
        cnt["instructions_loaded"] += len(ins)
        cnt["labels"] += len(prog.labels)
        for _i, toks in ins:
            feats.add("op:" + toks[0])
            sig = ic10_isa.ISA.get(toks[0])
            if sig and len(sig) == len(toks) - 1:
                for k, t in zip(sig, toks[1:]):
                    if k in ("V", "I") and ic10_isa.classify(t, prog) == "bare-enum":
                        cnt["bare_enum_in_value_position"] += 1
                    if k == "D" and ic10_isa.classify(t, prog) in ("reg", "num", "hex"):
                        cnt["refid_in_device_position"] += 1
        problems = [dict(signature=dict(monitor="loader", event=e["event"], opcode=e["opcode"], operand=e["operand"], token_class=e["token_class"]), detail=dict(line=e["line"], text=e["text"], token=e["token"])) for e in events]
        for p in check_note(code, cnt):
            problems.append(dict(signature=dict(monitor="version-note", event=p["event"]), detail=p))
        if case.get("literal") is not None:
            for p in check_literals(code, case["literal"], cnt):
                problems.append(dict(signature=dict(monitor="literal-readback", event=p["event"]), detail=p))
        if problems:
            if trig is None:
                trig = triggers_of(src)
            for p in problems:
                p["triggers"] = trig
                p["detail"] = dict(p["detail"], options=opts_key(o), code=code[:500])
                vio.append(p)
        if ins:
            keys.append(sha([src, opts_key(o)]))
            if sample is None:
                sample = dict(stream=case.get("stream"), options=opts_key(o), source_tail=(src if isinstance(src, str) else src.get("", ""))[-160:], code_head=code[:200])
    res = dict(verdict="violated" if vio else ("held" if cnt["successes"] else "skip"), counters=cnt, key=keys, violations=vio, features=sorted(feats))
    if sample:
        res["sample"] = sample
    return res


def run_case(task, i):
    c = gen_case(task, i)
    r = check_case(c)
    if r["violations"]:
        r["case"] = c
    elif i % 40:
        r.pop("sample", None)
    return r


def finish(agg, tier):
    c = agg["counters"]
    if c.get("instructions_loaded", 0) < 2000 or c.get("literals_read_back", 0) < 100:
        return dict(inconclusive=f"loader saw too little: {c.get('instructions_loaded', 0)} instructions, {c.get('literals_read_back', 0)} literals")
    ops = sorted(k[3:] for k in agg["features"] if k.startswith("op:"))
    for k in [k for k in agg["features"] if k.startswith("op:")]:
        del agg["features"][k]
    return dict(coverage=dict(opcodes_seen=ops, opcodes_seen_count=len(ops)))
