"""Execute-and-judge pipeline shared by C01 (trace vs interpreter), C06 (shadow call stack) and C07 (region / termination)."""
from .. import harness as H
from ..common import opts_key, sha
from ..progcheck import Compiled, error_class, event_sig, first_event, funcs_of
from ..triggers import triggers_of

CORNERS = [dict(inline_functions=a, tail_call_optimization=b, use_push_pop_functions=c) for a in (True, False) for b in (False, True) for c in (False, True)]


def opt_class(o):
    return dict(inline=bool(o.get("inline_functions", True)), tail=bool(o.get("tail_call_optimization", False)), conv="pushpop" if o.get("use_push_pop_functions") else "getput", labels="removed" if o.get("remove_labels") else "kept")


def judge_program(case, judge, caps=None):
    """case: dict(src, vectors, env_seeds, stream).  judge in {'trace', 'calls', 'region'}.
    -> result dict for the driver."""
    src = case["src"]
    caps = caps or case.get("caps") or dict(max_steps=40000, max_effects=100)
    fmeta = funcs_of(src)
    lits = H.literals(src)
    cnt = dict(compiles=0, successes=0, errors=0, vm_runs=0, ref_runs=0, not_judged=0, unmodelled=0, same=0, truncated=0, effects_compared=0, calls_executed=0, returns_checked=0, tail_calls=0, max_call_depth=0, pushes=0, back_jumps=0, machine_events=0, halted_with_source=0, diverged=0, loader_events=0, abandoned_pseudo_frames=0, ill_conditioned=0)
    feats = set([case.get("stream", "?")])
    vio = []
    trig = None
    main = src if isinstance(src, str) else src.get("", "")
    modules = None if isinstance(src, str) else {k: v for k, v in src.items() if k}
    refs = {}
    for es in case["env_seeds"]:
        refs[es] = H.run_ref(main, es, lits, modules=modules, **caps)
        cnt["ref_runs"] += 1
    if all(r["status"] == "not-judged" for r in refs.values()) and judge == "trace":
        cnt["not_judged"] += 1
        return dict(verdict="skip", reason="not-judged:" + refs[case["env_seeds"][0]].get("reason", "")[:40], counters=cnt, violations=[], features=sorted(feats))
    nontrivial = False
    sample = None
    maxdepth = 0
    for o in case["vectors"]:
        c = Compiled(src, o, fmeta)
        cnt["compiles"] += 1
        if not c.ok:
            cnt["errors"] += 1
            feats.add("err:" + str(error_class(c.error)))
            continue
        cnt["successes"] += 1
        cnt["loader_events"] += len(c.loader_events)
        oc = opt_class(c.opts)
        feats.add(f"vec:{int(oc['inline'])}{int(oc['tail'])}{int(oc['conv'] == 'pushpop')}")
        for es in case["env_seeds"]:
            vm = H.run_vm(c.code, es, lits, funcs=c.funcs, prog=c.prog, soft=(judge in ("trace", "region")), **caps)
            cnt["vm_runs"] += 1
            if vm["status"] == "unmodelled":
                cnt["unmodelled"] += 1
                why = vm.get("reason", "")
                if judge == "trace" and why.startswith(("not loadable", "operand ", "dest ", "unresolved name", "device ")):
                    # the emitted text cannot be executed at all (unknown opcode, wrong operand count, a literal or a
                    # device where a register must stand): the program has no behaviour to compare
                    if trig is None:
                        trig = triggers_of(src)
                    vio.append(dict(signature=dict(monitor="trace", event="emitted-code-not-executable", machine_event=None, **oc), triggers=trig, detail=dict(reason=why, options=c.key, code=c.code[:2500])))
                    break
                continue
            st = vm["stat"]
            cnt["calls_executed"] += st.get("calls", 0)
            cnt["returns_checked"] += st.get("returns", 0)
            cnt["tail_calls"] += st.get("tail_calls", 0)
            cnt["pushes"] += st.get("pushes", 0)
            cnt["back_jumps"] += st.get("back_jumps", 0)
            cnt["abandoned_pseudo_frames"] += st.get("abandoned_pseudo_frames", 0)
            cnt["machine_events"] += len(vm["events"])
            maxdepth = max(maxdepth, st.get("max_depth", 0))
            ref = refs[es]
            ev = first_event(vm)
            problems = []
            if judge == "calls" and ev is not None and ev["monitor"] in ("shadow-stack",):
                problems.append(dict(signature=dict(event_sig(ev), **oc), detail=dict(event=ev)))
            elif judge == "region" and ev is not None and ev["monitor"] == "region":
                problems.append(dict(signature=dict(event_sig(ev), **oc), detail=dict(event=ev)))
            elif judge == "calls" and ev is not None:
                pass  # another monitor's event: that property's check reports it; nothing after it is judged
            elif judge == "region" and ev is not None:
                # another monitor's event came first (C06 reports it); the run went on as the chip would: what is
                # still C07's business is whether the chip stops once the source's top-level code has ended
                if ref["status"] == "end" and vm["status"] != "machine-error":  # a chip that stops with an error has stopped
                    verdict, info = H.compare_traces(vm, ref)
                    if verdict == "differ" and info["kind"] in ("ref-stopped-early", "one-side-loops-forever", "halt-kind"):
                        problems.append(dict(signature=dict(monitor="termination", event="chip-keeps-running-after-source-ended", vm_status=vm["status"], machine_event=ev["event"], **oc), detail=dict(info=info, event=ev)))
            elif ref["status"] != "not-judged":
                verdict, info, cond = H.compare_conditioned(vm, ref, "vm", "ref", ref, lambda: H.run_ref(main, es, lits, modules=modules, perturb=True, **caps))
                if cond:
                    cnt["ill_conditioned"] += 1
                cnt["effects_compared"] += min(len(vm["effects"]), len(ref["effects"]))
                if verdict == "same":
                    cnt["same"] += 1
                    if len(vm["effects"]) >= 3:
                        nontrivial = True
                    if ref["status"] == "end" and vm["status"] == "end":
                        cnt["halted_with_source"] += 1
                elif verdict == "truncated":
                    cnt["truncated"] += 1
                else:
                    if judge == "region":
                        # only termination is C07's business: the source has ended, the chip has not
                        if ref["status"] == "end" and info["kind"] in ("ref-stopped-early", "one-side-loops-forever", "halt-kind"):
                            problems.append(dict(signature=dict(monitor="termination", event="chip-keeps-running-after-source-ended", vm_status=vm["status"], **oc), detail=dict(info=info)))
                    else:
                        sig = dict(monitor="trace", event=info["kind"], machine_event=(ev or {}).get("event"), **oc)
                        nan_at = (ref.get("stat") or {}).get("nan_test_at")
                        dyn = []
                        if nan_at is not None and nan_at <= info.get("index", 1 << 30):
                            # before the traces part, the source evaluated an if / while test on a NaN operand
                            sig["nan_in_test"] = True
                            dyn = ["test_compares_nan_at_run_time"]
                        problems.append(dict(signature=sig, dyn_triggers=dyn, detail=dict(info=info, event=ev)))
                if vm["status"] == "divergence":
                    cnt["diverged"] += 1
            if problems:
                if trig is None:
                    trig = triggers_of(src)
                for p in problems:
                    p["triggers"] = sorted(set(trig) | set(p.pop("dyn_triggers", [])))
                    p["detail"] = dict(p["detail"], options=c.key, env=es, code=c.code[:2500])
                    vio.append(p)
                break  # one witness per vector is enough
            if sample is None and len(vm["effects"]) >= 3:
                sample = dict(options=c.key, env=es, vm_status=vm["status"], ref_status=ref["status"], trace_head=vm["effects"][:4], calls=st.get("calls", 0), source_head=main[:400])
    feats.add(f"depth:{maxdepth}")
    res = dict(verdict="violated" if vio else ("held" if cnt["vm_runs"] else "skip"), counters=cnt, violations=vio, features=sorted(feats))
    if nontrivial:
        res["key"] = sha(src)
    if sample:
        res["sample"] = sample
    return res
