"""C10 — compile_code always returns a verdict, promptly, and cleans up (wrapper monitors around the real entry point)."""
import os
import subprocess
import time

from .. import gen_text, harness as H
from .. import pool, workload
from ..common import HEADER, OPTION_NAMES, opts_from_bits, rng, seed_env, sha

ID = "C10"
LEVEL = "exploration"
RERUN_WATCHDOG = True
RULE = (
    "a case is one call compile_code(text, options) with a hostile text (random edits of valid programs: truncation, "
    "deletion, duplication, token swap, junk characters incl. NUL/BOM/lone surrogates; unsupported constructs; "
    "recursion; Lua-looking text; dunder pragmas; deep nesting and huge inputs; constexpr bodies that fail, print, "
    "exit, never terminate or return non-JSON values; module dictionaries with missing/extra modules) and option "
    "values of any truthiness; monitors around the real function: exception recorder, return-shape checker (exactly "
    "one of code/error, statistics recounted, error position inside a submitted text), child-process monitor "
    "(every subprocess.Popen made during the call must be reaped when it returns; /proc is scanned for children of "
    "the worker), call duration; a case that does not return within the watchdog is re-run alone and only a "
    "reproducible stall is a violation; non-trivial = the text is not a valid program of the dialect (an error "
    "result) or it spawned a child; distinct = sha1(text, options)"
)
ASSUMPTIONS = [
    "'any options' = any values for the eight known option names (an unknown option *name* is a caller error, TypeError from the dataclass constructor)",
    "'promptly' = each constexpr evaluation is limited by the code's own 1 s timeout; a call is flagged slow above 8 s + 2.5 s per spawned child, and only the watchdog re-run decides a hang",
    "processes started by the user's own constexpr code (grandchildren) are not helper processes of the transpiler",
]
TRUSTED = ["subprocess.Popen wrapper installed in the worker", "/proc scan"]

_children = []
_orig_popen = subprocess.Popen


class _Popen(_orig_popen):
    def __init__(self, *a, **k):
        super().__init__(*a, **k)
        _children.append(self)


def worker_init():
    H.repo()
    subprocess.Popen = _Popen


def plan(tier, seed):
    q = tier == "quick"
    tasks = pool.batches("mutated", 5000 if q else 80000, 100) + pool.batches("fixed", len(_fixed()) * (2 if q else 6), 20) + pool.batches("special", 250 if q else 3000, 10) + pool.batches("modules", 200 if q else 2000, 20) + pool.batches("constexpr", len(gen_text.CONSTEXPR) * (3 if q else 5), 2)
    return dict(tasks=tasks, nworkers=14, time_cap=85 if q else 880, timeout=60)


def _fixed():
    return gen_text.UNSUPPORTED + gen_text.RECURSION + gen_text.LUA + gen_text.PRAGMA


def _options(r):
    k = r.random()
    if k < 0.6:
        return ("bits", r.randrange(256))
    vals = [True, False, 1, 0, "yes", "", None, 2.5, [], [0], "False"]
    return ("weird", {n: r.choice(vals) for n in OPTION_NAMES if r.random() < 0.6})


_BASE = None


def _bases():
    global _BASE
    if _BASE is None:
        _BASE = [m[""] for _, m in workload.corpus()]
    return _BASE


def gen_case(task, i):
    st = task["stream"]
    r = rng(seed_env(), ID, st, i)
    opts = _options(r)
    as_dict = r.random() < 0.3
    if st == "mutated":
        base = r.choice(_bases()) if r.random() < 0.6 else workload.gen_program(ID, "gen", i % 500)[0]["src"]
        src = base
        for _ in range(r.choice([1, 1, 1, 2, 3])):
            src = gen_text.mutate(src, r)
    elif st == "fixed":
        f = _fixed()
        body = f[i % len(f)]
        src = (HEADER if r.random() < 0.8 else "") + body
        if body in gen_text.RECURSION:
            return dict(src=HEADER + body, opts=opts, as_dict=as_dict, stream=st, must_be_error="recursion")
    elif st == "special":
        src = (HEADER if r.random() < 0.7 else "") + gen_text.special(r)
    elif st == "constexpr":
        body = gen_text.CONSTEXPR[i % len(gen_text.CONSTEXPR)]
        src = HEADER + body
        # bodies that cannot produce a value: raise, endless loop, exit, forbidden open / eval, undefined argument
        bad = {1: "raises", 3: "never-terminates", 6: "exits", 7: "sleeps-past-the-limit", 13: "opens-a-file", 14: "evals", 18: "undefined-argument"}.get(i % len(gen_text.CONSTEXPR))
        if i >= 2 * len(gen_text.CONSTEXPR):
            # a well-behaved function with the same name and the same call text was compiled just before
            good = HEADER + "@constexpr\ndef f(a):\n    return 42\ndb.Setting = f(1)\n"
            return dict(src=src, before=good, opts=opts, as_dict=as_dict, stream=st, must_be_error=bad)
        if bad:
            return dict(src=src, opts=opts, as_dict=as_dict, stream=st, must_be_error=bad) if i < len(gen_text.CONSTEXPR) else dict(src=src, before=HEADER + "".join(r.choice(["db.Mode = 1\n", "# a comment line\n", "\n"]) for _ in range(r.randint(4, 14))) + body, opts=opts, as_dict=as_dict, stream=st, must_be_error=bad)
        if i >= len(gen_text.CONSTEXPR):
            # the same constexpr function and call text were compiled just before in this process, further down in
            # a longer text: whatever the first compile left behind must not speak for the second
            pad = "".join(r.choice(["db.Mode = 1\n", "# a comment line\n", "\n", "d0.Setting = d1.Setting\n"]) for _ in range(r.randint(4, 14)))
            return dict(src=src, before=HEADER + pad + body, opts=opts, as_dict=as_dict, stream=st)
    else:
        main = HEADER + r.choice(["from library import a\na.f(1)\n", "from library import a as b\nb.f(1)\nb.f(2)\n", "from library import a, missing\na.f(1)\n", "db.Setting = 1\n", "from library import a\ndb.Setting = a.g\n", "from library import a\na.nothing(1)\n"])
        lib = HEADER + r.choice(["def f(x):\n    db.Setting = x\n", "def f(x)\n    db.Setting = x\n", "g = 5\ndef f(x):\n    return x\n", "", "class X: pass\n", "def f(x):\n    return f(x)\n"])
        src = {"": main, "a": lib}
        if r.random() < 0.3:
            src["extra"] = "db.Mode = 1\n"
        if r.random() < 0.15:
            src[r.choice(["a.b", " ", "ä", "0"])] = "x = 1\n"
        if r.random() < 0.1:
            src["a"] = gen_text.mutate(lib, r)
    return dict(src=src, opts=opts, as_dict=as_dict, stream=st)


def _proc_children(pid):
    out = []
    try:
        for d in os.listdir("/proc"):
            if d.isdigit():
                try:
                    st = open(f"/proc/{d}/stat").read()
                    rest = st[st.rindex(")") + 2 :].split()
                    if int(rest[1]) == pid and rest[0] != "Z":
                        out.append((int(d), st[st.index("(") + 1 : st.rindex(")")]))
                except Exception:
                    pass
    except Exception:
        pass
    return out


def check_case(case):
    if case.get("before") is not None:
        first = check_case(dict(case, src=case["before"], before=None, must_be_error=None))
        second = check_case(dict(case, before=None))
        for k, v in first.get("counters", {}).items():
            second["counters"][k] = second["counters"].get(k, 0) + v
        second["counters"]["compiled_after_related_text"] = 1
        second["violations"] = list(first.get("violations", [])) + list(second.get("violations", []))
        if second["violations"]:
            second["verdict"] = "violated"
        return second
    cc, CO = H.repo()
    src = case["src"]
    kind, ov = case["opts"]
    if kind == "bits":
        od = opts_from_bits(ov)
    else:
        od = ov
    try:
        options = dict(od) if case.get("as_dict") else CO(**od)
    except Exception:
        options = CO()
    cnt = dict(calls=1, returned_code=0, returned_error=0, raised=0, children_spawned=0, children_left=0, positions_checked=0, slow_calls=0, recounted=0, internal_errors=0)
    vio = []
    del _children[:]
    before = {p for p, _ in _proc_children(os.getpid())}
    t0 = time.time()
    res = None
    try:
        res = cc(dict(src) if isinstance(src, dict) else src, options)
    except BaseException as e:  # noqa
        if isinstance(e, (KeyboardInterrupt, SystemExit)) and not isinstance(e, SystemExit):
            raise
        cnt["raised"] = 1
        import traceback

        tb = traceback.extract_tb(e.__traceback__)
        where = f"{os.path.basename(tb[-1].filename)}:{tb[-1].name}" if tb else "?"
        vio.append(dict(signature=dict(monitor="exception-recorder", event="raised", exc=type(e).__name__, where=where), detail=dict(message=str(e)[:300])))
    dt = time.time() - t0
    nchild = len(_children)
    cnt["children_spawned"] = nchild
    left = [c for c in _children if c.poll() is None]
    time.sleep(0.02) if left else None
    left = [c for c in _children if c.poll() is None]
    after = [(p, n) for p, n in _proc_children(os.getpid()) if p not in before]
    if left or after:
        cnt["children_left"] = len(left) or len(after)
        vio.append(dict(signature=dict(monitor="child-monitor", event="child-left-running"), detail=dict(pids=[c.pid for c in left] or after, seconds=round(dt, 2))))
        for c in left:
            try:
                c.kill()
                c.wait(timeout=5)
            except Exception:
                pass
    if dt > 8 + 2.5 * nchild:
        cnt["slow_calls"] = 1
    if res is not None or not vio:
        texts = list(src.values()) if isinstance(src, dict) else [src]
        p = shape_problems(res, texts, cnt)
        for x in p:
            vio.append(dict(signature=dict(monitor="return-shape", event=x["event"]), detail=x))
    if case.get("must_be_error") and isinstance(res, dict) and "error" not in res:
        if case["must_be_error"] == "recursion":
            cnt["recursion_accepted"] = 1
            vio.append(dict(signature=dict(monitor="return-shape", event="recursive-program-not-reported-as-error"), detail=dict(kind=case["must_be_error"])))
        else:
            vio.append(dict(signature=dict(monitor="return-shape", event="failing-constexpr-not-reported-as-error"), detail=dict(kind=case["must_be_error"], result=str(res)[:300])))
    elif case.get("must_be_error") == "recursion":
        cnt["recursion_rejected"] = 1
    elif case.get("must_be_error"):
        cnt["failing_constexpr_rejected"] = cnt.get("failing_constexpr_rejected", 0) + 1
    trig = []
    for v in vio:
        v["triggers"] = trig
        v["detail"] = dict(v["detail"], options=str(od)[:200], result=str(res)[:300])
    out = dict(verdict="violated" if vio else "held", counters=cnt, violations=vio, features=[case.get("stream", "?")])
    if (isinstance(res, dict) and "error" in res) or nchild:
        out["key"] = sha([src, str(od)])
    main = src[""] if isinstance(src, dict) else src
    out["sample"] = dict(text_head=main[:120], options=str(od)[:80], result_head=str(res)[:160], seconds=round(dt, 3), children=nchild)
    return out


def shape_problems(res, texts, cnt):
    P = []
    if not isinstance(res, dict):
        return [dict(event="not-a-dict", type=type(res).__name__)]
    has_code, has_err = "code" in res, "error" in res
    if has_code == has_err:
        return [dict(event="not-exactly-one-of-code-error", keys=sorted(res))]
    if has_code:
        cnt["returned_code"] = 1
        if not isinstance(res["code"], str):
            return [dict(event="code-not-str", type=type(res["code"]).__name__)]
        for k in ("num_lines", "num_bytes", "num_registers"):
            if not isinstance(res.get(k), int) or isinstance(res.get(k), bool):
                P.append(dict(event="statistic-not-int", key=k, value=repr(res.get(k))))
        if not P:
            cnt["recounted"] = 1
            for pr in H.recount(res):
                if pr["event"] == "num_registers":
                    continue  # texts that name physical registers themselves; C17 judges this with its own exclusions
                P.append(dict(event="statistics-inconsistent", problem=pr))
        return P
    cnt["returned_error"] = 1
    e = res["error"]
    if not isinstance(e, dict) or not isinstance(e.get("description"), str):
        return [dict(event="error-without-description", value=repr(e)[:200])]
    if "Internal compiler error" in e["description"]:
        cnt["internal_errors"] = 1
    if "line" in e and e["line"] is not None:
        cnt["positions_checked"] = 1
        line, col = e.get("line"), e.get("column")
        if not isinstance(line, int) or isinstance(line, bool):
            P.append(dict(event="position-line-not-int", line=repr(line)))
        else:
            ok = False
            import re

            for t in texts:
                # lines as Python counts them (\r and \r\n are line ends too; a form feed is not)
                lines = re.split(r"\r\n|\r|\n", t)
                if 1 <= line <= len(lines) + 1:
                    ln = lines[line - 1] if line <= len(lines) else ""
                    # columns may be reported in characters or in UTF-8 bytes
                    if col is None or (isinstance(col, int) and 0 <= col <= len(ln.encode("utf-8", "surrogatepass")) + 1):
                        ok = True
                        break
            if not ok:
                P.append(dict(event="position-outside-text", line=line, column=col, text_lines=[len(re.split(r"\r\n|\r|\n", t)) for t in texts]))
    return P


def run_case(task, i):
    c = gen_case(task, i)
    r = check_case(c)
    if r["violations"]:
        r["case"] = c
    elif i % 300:
        r.pop("sample", None)
    return r


def finish(agg, tier):
    c = agg["counters"]
    if c.get("calls", 0) < 2000 or c.get("returned_error", 0) < 500 or c.get("children_spawned", 0) < 5:
        return dict(inconclusive=f"monitors saw too little: {dict(c)}")
    return None
