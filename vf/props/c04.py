"""C04 — register allocation never lets one live value overwrite another (shadow register tags via the guarded hook)."""
import re

from .. import gen_shapes, harness as H
from .. import ic10_isa, pool, tok, workload
from ..common import HEADER, opts_key, rng, seed_env, sha
from ..progcheck import funcs_of
from ..triggers import triggers_of
from ._exec import CORNERS

ID = "C04"
LEVEL = "exploration"
RULE = (
    "a case is a source from the register-pressure families (k = 1..24 simultaneously live locals in main / in a "
    "function / across calls / in nested loops / in one long expression), the echo/call-graph family, random "
    "programs and layout-mutated programs (several statements per source line), compiled with PYTRAPIC_VERIF=1 so "
    "that the result carries, per instruction, the virtual register of its output and inputs and the physical "
    "register they were mapped to; the reference machine keeps tag[rK] = virtual register that last wrote rK and "
    "reports a clobber when an instruction reads rK expecting another virtual register than the tag; also judged: "
    "every register token of the output is r0-r15/sp/ra, and a program that compiles never shows more than 16 "
    "general registers; non-trivial = at least 20 register reads were tag-checked in a run; distinct = sha1(source, options)"
)
ASSUMPTIONS = [
    "definite assignment in the generated programs: every read of a variable is preceded by a write on every path, so a tag mismatch means another value took the register while this one was live",
    "the hook exports the instruction list in emission order; the harness re-aligns it with the emitted text and makes the case inconclusive (hook-misaligned) when it cannot",
    "the 'j ra' subroutine of `for x in [..]` and the calling conventions' stack cells are not registers and are not tagged",
]
TRUSTED = ["guarded hook in CompilerPassGatherCode.run (add-only)", "vf/ic10_vm.py tag monitor"]


def plan(tier, seed):
    q = tier == "quick"
    tasks = pool.batches("pressure", 500 if q else 7000, 10) + pool.batches("gen", 450 if q else 7000, 10) + pool.batches("echo", 200 if q else 4000, 10) + pool.batches("tail", 200 if q else 3000, 10) + pool.batches("layout", 200 if q else 3000, 10) + pool.batches("limit", 60 if q else 400, 10) + pool.batches("corpus", len(workload.corpus()), 2) + pool.batches("modules", 150 if q else 2500, 10)
    for hz in ("reuse_for_target", "copy_assign"):
        tasks += pool.batches(f"defect:{hz}", 20 if q else 200, 10)
    return dict(tasks=tasks, nworkers=14, time_cap=85 if q else 880, env_extra={"PYTRAPIC_VERIF": "1"})


def worker_init():
    import os

    os.environ["PYTRAPIC_VERIF"] = "1"
    H.repo()


def gen_case(task, i):
    st = task["stream"]
    r = rng(seed_env(), ID, st, i)
    info = None
    if st == "pressure":
        src, info = gen_shapes.pressure_program(r, k=1 + (i % 24))
    elif st == "limit":
        # around the 16-register limit: must either compile with <= 16 registers or be rejected
        src, info = gen_shapes.pressure_program(r, k=12 + (i % 10), where=r.choice(["main", "function", "across_call"]))
    elif st == "echo":
        src = gen_shapes.echo_program(r)
    elif st == "tail":
        src = gen_shapes.tail_program(r)
    elif st == "layout":
        src = gen_shapes.layout_mutation(workload.gen_program(ID, "gen", i + 50000)[0]["src"], r)
    elif st == "corpus":
        src = workload.corpus_case(i)["src"]
    elif st == "modules":
        # library modules with register-held globals, functions of other modules and of the main script
        from . import c13

        src = c13.multi_with_main_function(i, r)
    else:
        src = workload.gen_program(ID, st, i)[0]["src"]
    vs = [dict(append_version=False), dict(append_version=False, inline_functions=False), dict(r.choice(CORNERS), append_version=False, remove_labels=r.random() < 0.5)]
    if st == "tail":
        vs = [dict(append_version=False, tail_call_optimization=True, inline_functions=False), dict(append_version=False, tail_call_optimization=True), dict(append_version=False, tail_call_optimization=True, inline_functions=False, use_push_pop_functions=True)]
    return dict(src=src, vectors=vs, env_seeds=[f"{i}:0", f"{i}:1", f"{i}:2"], stream=st, info=info)


class Misaligned(Exception):
    pass


def align(prog, snap):
    """per text line None or the hook entry of that instruction"""
    meta = [None] * prog.n
    li = 0
    n = prog.n
    for e in snap:
        op = e["op"]
        if op.endswith(":") and " " not in op.strip():
            lab = op[:-1].strip()
            if li < n and prog.lines[li] is None and prog.labels.get(lab) == li:
                li += 1
            continue
        first = op.split()[0] if op.split() else ""
        while li < n and prog.lines[li] is None:
            # a label line that the entry list does not know (cannot happen) or a blank line
            if prog.raw[li].strip():
                raise Misaligned(f"unexpected label line {prog.raw[li]!r} before {op!r}")
            li += 1
        if li >= n:
            raise Misaligned(f"text ended before {op!r}")
        if prog.lines[li][0] != first:
            raise Misaligned(f"line {li}: text {prog.lines[li][0]!r} vs hook {first!r}")
        ins = [v if (v and v.startswith("__register.")) else None for v in e["ins"]]
        out = e["out"] if (e["out"] and e["out"].startswith("__register.")) else None
        meta[li] = dict(ins=ins, pins=[p if v else None for v, p in zip(ins, e["pins"])], out=out, pout=e["pout"] if out else None, owner=e.get("owner"), lineno=e.get("lineno"), op=first)
        li += 1
    while li < n:
        if prog.lines[li] is not None:
            raise Misaligned(f"text has an instruction the hook does not: {prog.raw[li]!r}")
        li += 1
    return meta


_REG = re.compile(r"^(r\d+|sp|ra)$")


def check_case(case):
    src = case["src"]
    lits = H.literals(src)
    cnt = dict(compiles=0, successes=0, rejected_out_of_registers=0, errors=0, runs=0, tag_reads=0, untagged_reads=0, misaligned=0, no_hook_data=0, unmodelled=0, calls_executed=0, register_tokens=0, bad_register_tokens=0)
    vio = []
    feats = set([case.get("stream", "?")])
    trig = None
    nontrivial = False
    sample = None
    fm = funcs_of(src)
    k = (case.get("info") or {}).get("k")
    for o in case["vectors"]:
        r = H.compile_src(src, o)
        cnt["compiles"] += 1
        if not (isinstance(r, dict) and isinstance(r.get("code"), str)):
            if isinstance(r, dict) and "Running out of registers" in str(r.get("error", {}).get("description", "")):
                cnt["rejected_out_of_registers"] += 1
                if k:
                    feats.add(f"rejected_k:{k}")
            else:
                cnt["errors"] += 1
            continue
        cnt["successes"] += 1
        if k:
            feats.add(f"compiled_k:{k}")
        code = r["code"]
        prog, _ev = ic10_isa.load(code)
        problems = []
        # (ii) only r0-r15 / sp / ra
        regs = set()
        for _i, toks in prog.instructions():
            for t in toks[1:]:
                if re.match(r"^r\d+$", t):
                    cnt["register_tokens"] += 1
                    if tok.reg_index(t) is None:
                        cnt["bad_register_tokens"] += 1
                        problems.append(dict(signature=dict(monitor="register-range", event="register-outside-r0-r15"), detail=dict(token=t)))
                    else:
                        regs.add(t)
                elif t.startswith("__register."):
                    problems.append(dict(signature=dict(monitor="register-range", event="virtual-register-in-output"), detail=dict(token=t)))
        if len(regs) > 16 or (isinstance(r.get("num_registers"), int) and r["num_registers"] > 16):
            problems.append(dict(signature=dict(monitor="register-range", event="more-than-16-registers"), detail=dict(registers=sorted(regs), reported=r.get("num_registers"))))
        feats.add(f"regs:{len(regs)}")
        snap = r.get("_verif")
        if snap is None:
            cnt["no_hook_data"] += 1
        else:
            try:
                meta = align(prog, snap)
            except Misaligned as e:
                cnt["misaligned"] += 1
                meta = None
            if meta is not None and not problems:
                from ..ic10_vm import func_table

                lab = None
                if o.get("remove_labels"):
                    tw = H.compile_src(src, dict(o, remove_labels=False))
                    lab = tw.get("code") if isinstance(tw, dict) else None
                ft = func_table(prog, fm, H.directive_options(src, o), lab)
                for es in case["env_seeds"]:
                    vm = H.run_vm(code, es, lits, funcs=ft, meta=meta, prog=prog, max_steps=30000, max_effects=100)
                    if vm["status"] == "unmodelled":
                        cnt["unmodelled"] += 1
                        continue
                    cnt["runs"] += 1
                    cnt["tag_reads"] += vm["stat"].get("tag_reads", 0)
                    cnt["untagged_reads"] += vm["stat"].get("untagged_reads", 0)
                    cnt["calls_executed"] += vm["stat"].get("calls", 0)
                    if vm["stat"].get("tag_reads", 0) >= 20:
                        nontrivial = True
                    ev = vm["events"][0] if vm["events"] else None
                    if ev is not None and ev["event"] == "clobber":
                        same_owner = ev["reader"].get("owner") == ev["writer"].get("owner")
                        problems.append(dict(signature=dict(monitor="shadow-tags", event="clobber", across_scopes=not same_owner), detail=dict(register=ev["info"][0], expected=ev["info"][1], found=ev["info"][2], reader=ev["reader"], writer=ev["writer"], env=es)))
                        break
                    if sample is None and vm["stat"].get("tag_reads", 0) >= 20:
                        sample = dict(options=opts_key(o), tag_reads=vm["stat"]["tag_reads"], registers=sorted(regs), info=case.get("info"), source_head=(src if isinstance(src, str) else src.get("", ""))[:300])
        if problems:
            if trig is None:
                trig = triggers_of(src)
            for p in problems:
                p["triggers"] = trig
                p["detail"] = dict(p["detail"], options=opts_key(o), code=code[:2500])
            vio += problems
            break
    res = dict(verdict="violated" if vio else ("held" if cnt["runs"] else "skip"), counters=cnt, violations=vio, features=sorted(feats))
    if nontrivial:
        res["key"] = sha(src)
    if sample:
        res["sample"] = sample
    return res


def run_case(task, i):
    c = gen_case(task, i)
    r = check_case(c)
    if r["violations"]:
        r["case"] = c
    elif i % 40:
        r.pop("sample", None)
    return r


def finish(agg, tier):
    c = agg["counters"]
    f = agg["features"]
    comp = sorted(int(k.split(":")[1]) for k in f if k.startswith("compiled_k:"))
    rej = sorted(int(k.split(":")[1]) for k in f if k.startswith("rejected_k:"))
    regs = sorted(int(k.split(":")[1]) for k in f if k.startswith("regs:"))
    cov = dict(largest_k_that_compiled=max(comp) if comp else None, smallest_k_rejected=min(rej) if rej else None, max_registers_in_an_output=max(regs) if regs else None)
    for k in [k for k in f if k.startswith(("compiled_k:", "rejected_k:", "regs:"))]:
        del f[k]
    if c.get("no_hook_data", 0) and not c.get("tag_reads", 0):
        return dict(inconclusive="the hook produced no data (PYTRAPIC_VERIF not honoured?)", coverage=cov)
    if c.get("tag_reads", 0) < 20000:
        return dict(inconclusive=f"too few tag-checked register reads: {c.get('tag_reads', 0)}", coverage=cov)
    if c.get("misaligned", 0) > 0.2 * max(1, c.get("successes", 0)):
        return dict(inconclusive=f"hook misaligned with the text in {c.get('misaligned')} of {c.get('successes')} outputs", coverage=cov)
    return dict(coverage=cov)
