"""C08 — compact output means the same as verbose output (token-wise numeric comparison with independent evaluators)."""
from .. import enums as E
from .. import harness as H
from .. import ic10_isa, pool, tok, workload
from ..common import HEADER, opts_key, rng, seed_env, sha
from ..crc import hash_signed, str_pack
from ..triggers import triggers_of

ID = "C08"
LEVEL = "exploration"
RULE = (
    "a case is a source compiled with compact off and on under otherwise equal options; both outputs are tokenised by "
    "the harness; line k of one must have as many tokens as line k of the other and each token pair must denote the "
    "same thing after independent evaluation: HASH(\"s\") = harness CRC-32 folded to signed 32 bit, STR(\"s\") = "
    "big-endian packing, $hex / %bin / decimal literals as numbers, Class.Member by the tree's enum AND the snapshot "
    "taken at the pinned commit (a member whose number differs from the snapshot is a violation), bare names by "
    "operand position from the ISA table; streams: generated programs, corpus, a string stream (names of length 0-40 "
    "from ASCII, Latin-1, astral Unicode, with quotes, '#', spaces, backslashes), and an exhaustive enum stream "
    "(every member of every enum as a value, every LogicType/LogicSlotType/LogicBatchMethod in its operand "
    "position); non-trivial = at least one token pair differs textually (i.e. something was actually replaced); "
    "distinct = sha1(source, options)"
)
ASSUMPTIONS = [
    "enum ground truth offline is the snapshot vf/refdata/enums_pinned.json: a renumbering that follows a real game change would be flagged; members absent from the snapshot are counted as unverifiable",
    "STR of characters above U+00FF is evaluated with the same shift-by-8 formula the property names (the game only defines it for ASCII)",
]
TRUSTED = ["vf/crc.py", "vf/tok.py", "vf/ic10_isa.py ISA table (operand positions)", "vf/refdata/enums_pinned.json"]


def plan(tier, seed):
    q = tier == "quick"
    nenum = sum(len(v) for v in E.live().values())
    nslot = (len(_slot_lines()) + 9) // 10
    tasks = pool.batches("slots", nslot, 5) + pool.batches("gen", 900 if q else 12000, 20) + pool.batches("corpus", len(workload.corpus()), 4) + pool.batches("strings", 1500 if q else 20000, 50) + pool.batches("enums", (nenum + 7) // 8, 10)
    return dict(tasks=tasks, nworkers=14, time_cap=80 if q else 800)


def worker_init():
    H.repo()


_ALPH = ["abcdefghijklmnopqrstuvwxyzABCDEFGHIJKLMNOPQRSTUVWXYZ0123456789", " _-.:,;!?()[]{}<>+*/=&%$@^~|'", "äöüßéèêñçÿÆØÅ¡¿", "日本語中文한국어ελληνικά", "\U0001F600\U0001F680\U00010000", "#", '"', "\\", "\x0c\u2028"]


def _name(r):
    n = r.choice([0, 1, 1, 2, 3, 4, 5, 6, 7, 8, 12, 20, 40])
    k = r.random()
    if k < 0.5:
        a = _ALPH[0]
    elif k < 0.7:
        a = _ALPH[0] + _ALPH[1]
    else:
        a = "".join(_ALPH)
    return "".join(r.choice(a) for _ in range(n))


def _pylit(s):
    return '"' + s.replace("\\", "\\\\").replace('"', '\\"') + '"'


_ENUM_LIST = None


def _enum_members():
    global _ENUM_LIST
    if _ENUM_LIST is None:
        _ENUM_LIST = [(c, m) for c, ms in sorted(E.live().items()) for m in sorted(ms)]
    return _ENUM_LIST


_SLOT_LINES = None


def _slot_lines():
    """one read per (slot class, slot logic type), singular and plural, taken from the live structure tables"""
    global _SLOT_LINES
    if _SLOT_LINES is None:
        H.repo()
        from stationeers_pytrapic import structures_generated as SG
        from stationeers_pytrapic import types as T

        seen = set()
        out = []
        for n, c in sorted(vars(SG).items()):
            if isinstance(c, type) and issubclass(c, T._BaseStructure) and c is not T._BaseStructure and getattr(c, "_prefab_name", None):
                o = c("d0")
                for a in dir(o):
                    if a.startswith("_"):
                        continue
                    try:
                        v = getattr(o, a)
                    except Exception:
                        continue
                    if isinstance(v, T._BaseSlotType):
                        for b in dir(v):
                            if b.startswith("_"):
                                continue
                            try:
                                w = getattr(v, b)
                            except Exception:
                                continue
                            if isinstance(w, T._DeviceSlotType) and (type(v).__name__, b) not in seen:
                                seen.add((type(v).__name__, b))
                                out.append(f"db.Setting = {n}(d1).{a}.{b}")
        plural = {nm: o for nm, o in vars(SG).items() if isinstance(o, T._BaseStructures)}
        seenp = set()
        for nm, p in sorted(plural.items()):
            for a in dir(p):
                if a.startswith("_") or a in ("Average", "Sum", "Minimum", "Maximum"):
                    continue
                try:
                    v = getattr(p, a)
                except Exception:
                    continue
                if isinstance(v, T._BaseSlotTypes):
                    for b in dir(v):
                        if b.startswith("_"):
                            continue
                        try:
                            w = getattr(v, b)
                        except Exception:
                            continue
                        if isinstance(w, T._DevicesSlotType) and (type(v).__name__, b) not in seenp:
                            seenp.add((type(v).__name__, b))
                            out.append(f"db.Mode = {nm}.{a}.{b}.Sum")
        _SLOT_LINES = out
    return _SLOT_LINES


def gen_case(task, i):
    st = task["stream"]
    r = rng(seed_env(), ID, st, i, "v")
    if st == "slots":
        lines = _slot_lines()[i * 10 : i * 10 + 10]
        o = dict(append_version=False, remove_labels=bool(i & 1), inline_functions=True, original_code_as_comment=False, generated_comments=False, tail_call_optimization=False, use_push_pop_functions=False)
        return dict(src=HEADER + "\n".join(lines) + "\n", options=o, stream=st)
    o = dict(append_version=False, remove_labels=r.random() < 0.5, inline_functions=r.random() < 0.6, original_code_as_comment=False, generated_comments=False, tail_call_optimization=False, use_push_pop_functions=r.random() < 0.3)
    if st == "gen":
        src = workload.gen_program(ID, st, i)[0]["src"]
    elif st == "corpus":
        src = workload.corpus_case(i)["src"]
    elif st == "strings":
        lines = []
        for _ in range(r.randint(1, 4)):
            s = _name(r)
            k = r.random()
            if k < 0.3:
                lines.append(f"db.Setting = HASH({_pylit(s)})" if s else "db.Setting = 0")
            elif k < 0.5:
                lines.append(f"db.Setting = STR({_pylit(s[:r.choice([1, 2, 3, 6, 8, 12])])})")
            elif k < 0.7 and s:
                lines.append(f"WallLights[{_pylit(s)}].On = d0.Setting")
            elif k < 0.85 and s:
                lines.append(f"db.Setting = Batteries[{_pylit(s)}].Charge.Sum")
            elif k < 0.93 and s:
                lines.append(f"x{len(lines)} = HASH({_pylit(s)})\ndb.Mode = x{len(lines)} + d0.Setting")
            elif s:
                # constants built from HASH/STR by operators (folded at compile time)
                op = r.choice(["+ 1", "* 3", "% 7", "- 0.5", "< 5", "** 2"])
                fn = r.choice(["HASH", "HASH", "STR"])
                lines.append(f"db.Setting = {fn}({_pylit(s[:6] if fn == 'STR' else s)}) {op}")
        src = HEADER + "\n".join(lines) + "\n"
    else:
        ms = _enum_members()[i * 8 : i * 8 + 8]
        lines = []
        for c, m in ms:
            if c == "LogicType":
                lines.append(f"db.Setting = d{r.randrange(6)}.{m}")
                lines.append(f"db.Mode = l(d0, LogicType.{m})")
            elif c == "LogicSlotType":
                lines.append(f"db.Setting = ls(d0, {r.randrange(4)}, LogicSlotType.{m})")
            elif c == "LogicBatchMethod":
                lines.append(f'db.Setting = lb(HASH("StructureBattery"), LogicType.On, LogicBatchMethod.{m})')
                lines.append(f"db.Mode = Batteries.{m}.Charge")
            elif c == "LogicReagentMode":
                lines.append(f"db.Setting = lr(d0, LogicReagentMode.{m}, 5)")
            lines.append(f"d{r.randrange(6)}.Setting = {c}.{m}")
            lines.append(f"d{r.randrange(6)}.Mode = {c}.{m} + d1.Setting")
        src = HEADER + "\n".join(lines) + "\n"
    return dict(src=src, options=o, stream=st)


def value_of(t, kind, prog, counters):
    """-> ('v', number) | ('s', symbol) for a token in an operand position of kind `kind`"""
    num = tok.parse_number(t)
    if num is not None:
        return ("v", float(num[0]) if not isinstance(num[0], int) else num[0])
    if tok.is_hash(t):
        counters["hash_tokens"] += 1
        return ("v", hash_signed(t[6:-2]))
    if tok.is_str(t):
        counters["str_tokens"] += 1
        return ("v", str_pack(t[5:-2]))
    if t in E.dotted("live") or t in E.dotted("pinned"):
        counters["enum_tokens"] += 1
        lv, pv = E.dotted("live").get(t), E.dotted("pinned").get(t)
        if pv is None:
            counters["enum_unverifiable"] += 1
            return ("v", lv)
        if lv is not None and lv != pv:
            return ("bad", f"{t}: tree says {lv}, snapshot of the pinned commit says {pv}")
        return ("v", pv)
    if kind in ("T", "S", "B", "M") and tok.is_ident(t):
        lv, pv = E.positional(kind, "live").get(t), E.positional(kind, "pinned").get(t)
        if lv is not None or pv is not None:
            counters["positional_enum_tokens"] += 1
            if pv is None:
                counters["enum_unverifiable"] += 1
                return ("v", lv)
            if lv is not None and lv != pv:
                return ("bad", f"{t} ({kind}): tree says {lv}, snapshot says {pv}")
            return ("v", pv)
    if kind in ("V", "I") and tok.is_ident(t) and t not in prog.labels and t not in prog.aliases and t not in prog.defines:
        vals = {v for v in (E.positional(k, "pinned").get(t) for k in ("T", "S", "B", "M")) if v is not None}
        if len(vals) == 1:
            counters["bare_enum_in_value_position"] += 1
            return ("v", vals.pop())
        if len(vals) > 1:
            counters["ambiguous_bare_enum"] += 1
            return ("?", t)
    return ("s", t)


def check_case(case):
    src, o = case["src"], case["options"]
    cnt = dict(pairs=1, successes=0, errors=0, asymmetric=0, lines_compared=0, tokens_compared=0, tokens_replaced=0, hash_tokens=0, str_tokens=0, enum_tokens=0, positional_enum_tokens=0, enum_unverifiable=0, bare_enum_in_value_position=0, ambiguous_bare_enum=0)
    a = H.compile_src(src, dict(o, compact=False))
    b = H.compile_src(src, dict(o, compact=True))
    oka = isinstance(a, dict) and isinstance(a.get("code"), str)
    okb = isinstance(b, dict) and isinstance(b.get("code"), str)
    feats = [case.get("stream", "?")]
    if not (oka and okb):
        cnt["errors"] = 1
        vio = []
        if H.is_timeout(a) or H.is_timeout(b):
            return dict(verdict="inconclusive", reason="constexpr-timeout-under-load", counters=cnt, violations=[], features=feats)
        if oka != okb:
            cnt["asymmetric"] = 1
            vio.append(dict(signature=dict(monitor="compact-differential", event="only-one-mode-compiles"), triggers=sorted(set(triggers_of(src)) | set(_str_triggers(src))), detail=dict(verbose=str(a)[:300], compact=str(b)[:300], options=opts_key(o))))
        return dict(verdict="violated" if vio else "skip", counters=cnt, violations=vio, features=feats)
    cnt["successes"] = 1
    pa, pb = ic10_isa.Program(a["code"]), ic10_isa.Program(b["code"])
    problems = []
    if len(pa.lines) != len(pb.lines):
        problems.append(dict(signature=dict(monitor="compact-differential", event="line-count-differs"), detail=dict(verbose=len(pa.lines), compact=len(pb.lines))))
    else:
        for k, (x, y) in enumerate(zip(pa.lines, pb.lines)):
            if x is None and y is None:
                if pa.raw[k].strip() != pb.raw[k].strip():
                    problems.append(dict(signature=dict(monitor="compact-differential", event="label-line-differs"), detail=dict(line=k, verbose=pa.raw[k], compact=pb.raw[k])))
                continue
            if x is None or y is None or len(x) != len(y) or x[0] != y[0]:
                problems.append(dict(signature=dict(monitor="compact-differential", event="instruction-shape-differs"), detail=dict(line=k, verbose=pa.raw[k], compact=pb.raw[k])))
                break
            cnt["lines_compared"] += 1
            sig = ic10_isa.ISA.get(x[0])
            for j in range(1, len(x)):
                cnt["tokens_compared"] += 1
                if x[j] == y[j]:
                    # identical spelling; still check enum names against the snapshot
                    kind = sig[j - 1] if sig and len(sig) == len(x) - 1 else "V"
                    v = value_of(x[j], kind, pa, cnt)
                    if v[0] == "bad":
                        problems.append(dict(signature=dict(monitor="enum-snapshot", event="member-renumbered"), detail=dict(line=k, token=x[j], why=v[1])))
                    continue
                cnt["tokens_replaced"] += 1
                kind = sig[j - 1] if sig and len(sig) == len(x) - 1 else "V"
                va, vb = value_of(x[j], kind, pa, cnt), value_of(y[j], kind, pb, cnt)
                if va[0] == "bad" or vb[0] == "bad":
                    problems.append(dict(signature=dict(monitor="enum-snapshot", event="member-renumbered"), detail=dict(line=k, verbose=x[j], compact=y[j], why=(va if va[0] == "bad" else vb)[1])))
                elif "?" in (va[0], vb[0]):
                    continue
                elif va[0] != vb[0] or (va[0] == "v" and not (va[1] == vb[1])) or (va[0] == "s" and va[1] != vb[1]):
                    problems.append(dict(signature=dict(monitor="compact-differential", event="token-value-differs", verbose_class=ic10_isa.classify(x[j], pa), compact_class=ic10_isa.classify(y[j], pb)), detail=dict(line=k, position=j, verbose=x[j], compact=y[j], verbose_value=str(va), compact_value=str(vb), text_verbose=pa.raw[k], text_compact=pb.raw[k])))
            if len(problems) >= 3:
                break
    vio = []
    if problems:
        trig = triggers_of(src) + _str_triggers(src)
        for p in problems:
            p["triggers"] = trig
            p["detail"] = dict(p["detail"], options=opts_key(o))
        vio = problems
    res = dict(verdict="violated" if vio else "held", counters=cnt, violations=vio, features=feats)
    if cnt["tokens_replaced"]:
        res["key"] = sha([src, opts_key(o)])
    res["sample"] = dict(options=opts_key(o), verbose_head=a["code"][:160], compact_head=b["code"][:160])
    return res


_SEPS = "\x0b\x0c\x1c\x1d\x1e\x85  \r"


def _str_triggers(src):
    import ast

    t = []
    try:
        for n in ast.walk(ast.parse(src)):
            if isinstance(n, ast.Constant) and isinstance(n.value, str):
                if any(c in n.value for c in _SEPS) or "\n" in n.value:
                    t.append("string_with_line_separator")
                if '"' in n.value:
                    t.append("string_with_double_quote")
                if n.value.startswith('"') and n.value.endswith('"'):
                    t.append("string_begins_and_ends_with_double_quote")
    except Exception:
        pass
    return sorted(set(t))


def run_case(task, i):
    c = gen_case(task, i)
    r = check_case(c)
    if r["violations"]:
        r["case"] = c
    elif i % 60:
        r.pop("sample", None)
    return r


def finish(agg, tier):
    c = agg["counters"]
    if c.get("tokens_replaced", 0) < 1000 or c.get("enum_tokens", 0) + c.get("positional_enum_tokens", 0) < 500 or c.get("hash_tokens", 0) < 200:
        return dict(inconclusive=f"too little observed: {dict(c)}")
    return dict(coverage=dict(enum_members_in_tree=sum(len(v) for v in E.live().values())))
