"""C12 — constexpr calls are replaced by exactly what the function returns (direct evaluation + metamorphic twin)."""
import enum
import json
import math

from .. import enums as E
from .. import harness as H
from .. import ic10_isa, pool, tok
from ..common import HEADER, opts_from_bits, opts_key, rng, seed_env, sha
from ..crc import hash_signed

ID = "C12"
LEVEL = "exploration"
RULE = (
    "a case is a program with 1-3 @constexpr functions (arithmetic, shifts, string operations, HASH, enum members, "
    "if/loops, calls to other constexpr functions, keyword and default arguments) called with generated argument "
    "expressions in generated positions (plain assignment, nested in run-time arithmetic, inside a function body, as "
    "a call argument, as a constant list index, in a condition, as a device-name hash, from a library module); the "
    "oracle executes the same function source in the harness (plain exec; HASH = harness CRC-32; enum classes rebuilt "
    "from the pinned snapshot; constexpr = identity) and (1) reads the literal back from 's db Setting <lit>', "
    "(2) compiles the twin program in which the @constexpr definitions are removed and each call is replaced by the "
    "expected literal: the emitted code must be identical; bodies containing open/eval/exec must be rejected; "
    "non-trivial = the call was evaluated in a child process and its literal compared; distinct = sha1(program)"
)
ASSUMPTIONS = [
    "results are numbers (the dialect has no other run-time values); a 'Timeout during evaluating' result for a terminating body is retried twice and then counted inconclusive (1 s budget includes interpreter start-up)",
    "checks run with 4 workers so that the child's 1 s budget is not eaten by the harness itself",
]
TRUSTED = ["python exec of the same function source with the harness's HASH and enum tables"]


def plan(tier, seed):
    q = tier == "quick"
    return dict(tasks=pool.batches("calls", 140 if q else 2400, 4) + pool.batches("forbidden", 20 if q else 80, 4) + pool.batches("crossmod", 24 if q else 240, 6), nworkers=4, time_cap=85 if q else 880, timeout=120)


def worker_init():
    H.repo()


_ENV = None


def harness_env():
    global _ENV
    if _ENV is None:
        env = dict(HASH=hash_signed, constexpr=lambda f: f, math=math)
        for cn, ms in E.pinned().items():
            env[cn] = enum.IntEnum(cn, ms)
        _ENV = env
    return dict(_ENV)


FUNCS = [
    ("cx_lin", "def cx_lin(a, b=2):\n    return a * b + 1\n", ["{i}", "{i}, {i}", "{f}", "{i}, b={i}", "b={i}, a={i}", "-{i}", "{i} + {i} * 2"]),
    ("cx_shift", "def cx_shift(cls, negate=False):\n    op = 1\n    if negate:\n        op = 2\n    return (cls << 16) + (op << 8) + 3\n", ["{s}", "{s}, negate=True", "{s}, True", "SortingClass.Ores", "SortingClass.Ices, negate=True"]),
    ("cx_hash", "def cx_hash(name, k=0):\n    return (HASH(name) << 8) + k\n", ['"ItemSteelIngot"', '"ItemIronOre", 2', "'it''s'", '"a b", k=7', '"ünï"', "'\"Airlock\"'", "'HASH(\"Tank\")', 3", "'\"'", "'a\"b'", '" padded "']),
    ("cx_loop", "def cx_loop(n):\n    t = 0\n    for i in range(n):\n        t += i * i\n    return t\n", ["{s}", "{s} + 1", "0"]),
    ("cx_cond", "def cx_cond(a, b):\n    if a > b:\n        return a - b\n    elif a == b:\n        return 0\n    return b - a\n", ["{i}, {i}", "{f}, {i}", "-{i}, {i}", "({i}), ({i})"]),
    ("cx_str", "def cx_str(txt):\n    return len(txt) * 10 + ord(txt[0])\n", ['"abc"', "'x'", '"hello world"', '"#tag"', '"a\\\\b"']),
    ("cx_float", "def cx_float(a):\n    return a / 4 + 0.5\n", ["{i}", "{f}", "1", "-{i}"]),
    ("cx_enum", "def cx_enum(a):\n    return Color.Red * 100 + a\n", ["{s}", "DisplayMode.Celsius", "LogicType.On"]),
    ("cx_small", "def cx_small(a):\n    return a % 4\n", ["{i}", "{s}", "{i} * 3"]),
    # the helper's constant {K} varies from program to program while cx_nested and the call text stay the same
    ("cx_nested", "def cx_inner(a):\n    return a + {K}\n@constexpr\ndef cx_nested(a):\n    return cx_inner(a) * 2\n", ["{s}", "3", "7"]),
]
FORBIDDEN = [
    "def cx_bad(a):\n    return len(open('/etc/hostname').read()) + a\n",
    "def cx_bad(a):\n    return eval('1+1') + a\n",
    "def cx_bad(a):\n    exec('x = 1')\n    return a\n",
    "def cx_bad(a, opener=open):\n    return a\n",
    "def cx_bad(a, fn=eval):\n    return fn('1+1') + a\n",
    "def cx_bad(a, fn=exec):\n    return a\n",
    "def cx_bad(a):\n    def inner():\n        return eval('2')\n    return inner() + a\n",
    "def cx_bad(a):\n    return (lambda: open)() and a\n",
    "def cx_bad(a):\n    s = 'open'\n    return a\n",
    "def cx_bad(a):\n    # eval in a comment\n    return a\n",
]


def _args(r, tmpl):
    out = tmpl
    while "{i}" in out:
        out = out.replace("{i}", str(r.randint(0, 40)), 1)
    while "{s}" in out:
        out = out.replace("{s}", str(r.randint(0, 9)), 1)
    while "{f}" in out:
        out = out.replace("{f}", r.choice(["0.5", "2.25", "7.0", "0.1", "1e3"]), 1)
    return out


def gen_case(task, i):
    st = task["stream"]
    r = rng(seed_env(), ID, st, i)
    o = dict(append_version=False, compact=r.random() < 0.4, remove_labels=r.random() < 0.4, inline_functions=r.random() < 0.7)
    if st == "crossmod":
        return dict(stream=st, offset=r.choice([100, 200, 300, 1000]) + r.randint(0, 3), level=r.choice([3, 3, 3, 5]), options=o, forbidden_in_library=(i % 6 == 5))
    if st == "forbidden":
        body = FORBIDDEN[i % len(FORBIDDEN)]
        return dict(defs=["@constexpr\n" + body], calls=[dict(text="cx_bad(1)", position="assign")], options=o, stream=st, expect_rejected=True, module=False)
    k = r.randint(1, 3)
    picks = r.sample(FUNCS, k)
    defs = ["@constexpr\n" + p[1].replace("{K}", str(r.randint(1, 9))) for p in picks]
    calls = []
    for name, _src, argt in picks:
        for _ in range(r.randint(1, 2)):
            calls.append(dict(text=f"{name}({_args(r, r.choice(argt))})", position=r.choice(["assign", "arith", "funcbody", "callarg", "index", "cond", "namehash", "assign"])))
    module = r.random() < 0.25
    if module:
        # calls into a library module from inside a main-file function are rejected by the transpiler
        for c in calls:
            if c["position"] == "funcbody":
                c["position"] = "arith"
    return dict(defs=defs, calls=calls, options=o, stream=st, module=module)


def _lit(v):
    if isinstance(v, bool):
        v = int(v)
    s = repr(v)
    return f"({s})" if s.startswith("-") else s


def render(case, values=None):
    """values None -> the constexpr program; else the twin with each call replaced by its expected literal"""
    mod = case.get("module")
    L = []
    main_defs = [] if (mod or values is not None) else list(case["defs"])
    body = []
    fn = 0
    for k, c in enumerate(case["calls"]):
        C = c["text"] if values is None else _lit(values[k])
        if mod and values is None:
            C = "cxlib." + C
        p = c["position"]
        cell = f"d{k % 6}"
        if p == "assign":
            body.append(f"{cell}.Setting = {C}")
        elif p == "arith":
            body.append(f"{cell}.Setting = {C} + d0.Temperature * 2")
        elif p == "funcbody":
            fn += 1
            main_defs.append(f"def g{fn}(x):\n    {cell}.Mode = x + {C}\n")
            body.append(f"g{fn}(d1.Temperature)\ng{fn}(1)")
        elif p == "callarg":
            fn += 1
            main_defs.append(f"def g{fn}(x):\n    {cell}.Mode = x\n")
            body.append(f"g{fn}({C})\ng{fn}(d2.Temperature)")
        elif p == "index":
            body.append(f"{cell}.Setting = [50, 60, 70, 80][{C} % 4]")
        elif p == "cond":
            body.append(f"if {C} > 3:\n    {cell}.On = 1\nelse:\n    {cell}.On = 0")
        elif p == "namehash":
            body.append(f"WallLights[{C}].On = d3.Temperature")
    head = HEADER + ("from library import cxlib\n" if (mod and values is None) else "")
    main = head + "\n".join(main_defs) + ("\n" if main_defs else "") + "\n".join(body) + "\n"
    if mod and values is None:
        return {"": main, "cxlib": HEADER + "\n".join(case["defs"]) + "\n"}
    return main


def expected_values(case):
    env = harness_env()
    for d in case["defs"]:
        exec(d, env)
    out = []
    for c in case["calls"]:
        v = eval(c["text"], env)
        if isinstance(v, enum.Enum):
            v = int(v)
        out.append(v)
    return out


def check_crossmod(case):
    """main-script constexpr function calling the constexpr helper of a library module; the helper differs from case
    to case while the main script and the call text stay the same (the worker compiles them one after the other)"""
    import re

    cnt = dict(programs=1, call_sites=1, compiled=0, errors=0, timeouts=0, literals_read_back=0, twins_compared=0, crossmod_programs=1)
    off, lvl = case["offset"], case["level"]
    main = HEADER + f"from library import cfg\n@constexpr\ndef threshold(level):\n    return cfg.base(level) * 10 + 1\ndb.Setting = threshold({lvl})\n"
    lib = HEADER + f"@constexpr\ndef base(n):\n    return n + {off}\n"
    if case.get("forbidden_in_library"):
        # the helper of the library opens a file: must be rejected like one in the main script
        lib = HEADER + "@constexpr\ndef base(n):\n    return len(open('/proc/self/cmdline').read()) + n\n"
    res = H.compile_src({"": main, "cfg": lib}, case["options"])
    vio = []
    if H.is_timeout(res):
        cnt["timeouts"] = 1
        return dict(verdict="inconclusive", reason="constexpr-timeout-under-load", counters=cnt, violations=[], features=["crossmod"])
    if case.get("forbidden_in_library"):
        if isinstance(res, dict) and "error" not in res:
            vio.append(dict(signature=dict(monitor="rejection", event="forbidden-constexpr-accepted", where="library"), triggers=[], detail=dict(result=str(res)[:300], library=lib)))
        else:
            cnt["rejected_as_required"] = 1
    elif isinstance(res, dict) and isinstance(res.get("code"), str):
        cnt["compiled"] = 1
        want = (lvl + off) * 10 + 1
        m = re.search(r"s db Setting (\S+)", res["code"])
        got = m.group(1) if m else None
        cnt["literals_read_back"] = 1
        cnt["twins_compared"] = 1
        if got is not None and got.startswith("$"):
            try:
                got = str(int(got[1:], 16))
            except ValueError:
                pass
        if got != str(want):
            vio.append(dict(signature=dict(monitor="constexpr-twin", event="literal-differs", where="crossmod"), triggers=[], detail=dict(expected=want, emitted=got, library=lib, code=res["code"][:300])))
    else:
        cnt["errors"] = 1
    return dict(verdict="violated" if vio else "held", counters=cnt, violations=vio, features=["crossmod"], key=sha(["crossmod", off, lvl]), sample=dict(main=main[len(HEADER) :], library=lib[len(HEADER) :]))


def check_case(case):
    if case.get("stream") == "crossmod":
        return check_crossmod(case)
    cnt = dict(programs=1, call_sites=len(case["calls"]), compiled=0, errors=0, timeouts=0, literals_read_back=0, twins_compared=0, rejected_as_required=0, module_programs=int(bool(case.get("module"))))
    vio = []
    o = case["options"]
    src = render(case)
    res = H.compile_src(src, o)
    if H.is_timeout(res):
        cnt["timeouts"] = 1
        return dict(verdict="inconclusive", reason="constexpr-timeout-under-load", counters=cnt, violations=[], features=[case["stream"]])
    if case.get("expect_rejected"):
        body = case["defs"][0]
        import re

        # "containing" = in the code of the function (names / calls); a mention in a comment is not code, a mention
        # in a string literal is rejected by the implementation but not demanded here
        import ast as _ast

        must = any(isinstance(n, _ast.Name) and n.id in ("open", "eval", "exec") for n in _ast.walk(_ast.parse(body)))
        ok = isinstance(res, dict) and "error" in res
        if must and not ok:
            vio.append(dict(signature=dict(monitor="forbidden-body", event="compiled"), triggers=[], detail=dict(body=body, result=str(res)[:300])))
        elif must:
            cnt["rejected_as_required"] = 1
        return dict(verdict="violated" if vio else "held", counters=cnt, violations=vio, features=[case["stream"]], key=sha(body), sample=dict(body=body, result=str(res)[:120]))
    try:
        want = expected_values(case)
    except Exception as e:
        return dict(verdict="skip", reason="harness-eval:" + type(e).__name__, counters=cnt, violations=[], features=[case["stream"]])
    if not (isinstance(res, dict) and isinstance(res.get("code"), str)):
        cnt["errors"] = 1
        # a terminating, pure body that the harness could evaluate must not be an error - unless the value is not a number
        if all(isinstance(v, (int, float)) and not isinstance(v, bool) and (not isinstance(v, float) or math.isfinite(v)) for v in want):
            desc = str(res.get("error", {}).get("description", "")) if isinstance(res, dict) else ""
            if "Running out of registers" not in desc:
                trig = []
                if case.get("module") and any("cx_nested" in c["text"] for c in case["calls"]):
                    trig.append("module_constexpr_calls_sibling_constexpr")
                vio.append(dict(signature=dict(monitor="constexpr-eval", event="error-for-evaluable-call", exc="NameError" if "NameError" in desc else "other"), triggers=trig, detail=dict(error=desc[:400], expected=want, program=str(src)[:900])))
        return dict(verdict="violated" if vio else "skip", counters=cnt, violations=vio, features=[case["stream"]])
    cnt["compiled"] = 1
    code = res["code"]
    # (1) literal read-back for the plain assignments
    prog = ic10_isa.Program(code)
    for k, c in enumerate(case["calls"]):
        if c["position"] != "assign":
            continue
        cell = f"d{k % 6}"
        found = None
        for t in prog.lines:
            if t and t[0] == "s" and t[1] == cell and t[2] in ("Setting", "12") and len(t) == 4:
                found = t[3]
        if found is None:
            vio.append(dict(signature=dict(monitor="constexpr-eval", event="write-missing"), triggers=[], detail=dict(call=c["text"], expected=want[k], code=code[:600])))
            continue
        num = tok.parse_number(found)
        cnt["literals_read_back"] += 1
        if num is None or not (float(num[0]) == float(want[k]) or abs(float(num[0]) - float(want[k])) <= 1e-15 * abs(float(want[k]))):
            vio.append(dict(signature=dict(monitor="constexpr-eval", event="literal-differs"), triggers=[], detail=dict(call=c["text"], expected=want[k], emitted=found, code=code[:600])))
    # (2) metamorphic twin
    twin = H.compile_src(render(case, want), o)
    if isinstance(twin, dict) and isinstance(twin.get("code"), str):
        cnt["twins_compared"] = 1
        if twin["code"] != code:
            vio.append(dict(signature=dict(monitor="constexpr-twin", event="code-differs-from-literal-twin"), triggers=[], detail=dict(expected=want, calls=[c["text"] for c in case["calls"]], code=code[:900], twin=twin["code"][:900])))
    for v in vio:
        v["detail"] = dict(v["detail"], options=opts_key(o))
    out = dict(verdict="violated" if vio else "held", counters=cnt, violations=vio, features=[case["stream"]] + sorted({c["position"] for c in case["calls"]}))
    if cnt["literals_read_back"] or cnt["twins_compared"]:
        out["key"] = sha([str(src), opts_key(o)])
    out["sample"] = dict(calls=[c["text"] + " @" + c["position"] for c in case["calls"]], expected=want, code_head=code[:200])
    return out


def run_case(task, i):
    c = gen_case(task, i)
    r = check_case(c)
    if r["violations"]:
        r["case"] = c
    elif i % 20:
        r.pop("sample", None)
    return r


def finish(agg, tier):
    c = agg["counters"]
    if c.get("compiled", 0) < 40 or c.get("twins_compared", 0) < 40:
        return dict(inconclusive=f"too few constexpr programs evaluated (timeouts under load: {c.get('timeouts', 0)}): {dict(c)}")
    return None
