"""C05 — every jump lands where it was meant to; label-free output = labelled output with labels replaced by indices."""
from .. import gen_names, harness as H
from .. import ic10_isa, pool, tok, workload
from ..common import HEADER, opts_key, rng, seed_env, sha
from ..ic10_vm import label_index_map
from ..progcheck import funcs_of
from ..triggers import triggers_of

ID = "C05"
LEVEL = "exploration"
RULE = (
    "a case is a source (generated program with function names drawn from ordinary and hostile identifier pools - "
    "prefix chains, component clashes, generated-label look-alikes, operand look-alikes -, strings containing label "
    "names, corpus incl. multi-module scripts) compiled twice under the same options except remove_labels; monitors: "
    "(1) loader: every referenced label defined exactly once, every numeric target inside the program, in both modes; "
    "(2) text relation computed by the harness tokeniser: label-free line k == k-th instruction of the labelled text "
    "with each whole token that is a defined label replaced by the index of the following instruction; "
    "(3) lock-step execution of both outputs on the reference machine: same effect trace and same path under the "
    "label->index map; non-trivial = the labelled output defines >= 1 label that is referenced; distinct = sha1(source, options)"
)
ASSUMPTIONS = [
    "comments are not part of the relation: it is computed on the tokenised instructions (a label line's comment has no counterpart once the line is removed); the comment options and append_version are on in about a quarter of the pairs and always in the 'longlines' stream",
    "that each jump reaches the construct it was generated for is decided by C01's trace comparison on the same generators; here the two label modes are related to each other",
]
TRUSTED = ["vf/tok.py", "vf/ic10_isa.py loader", "vf/ic10_vm.py for the lock-step runs"]

POOL_KINDS = ["ordinary", "prefix", "clash", "lookalike", "operand", "regex"]


def plan(tier, seed):
    q = tier == "quick"
    tasks = []
    for k in POOL_KINDS:
        tasks += pool.batches(f"names:{k}", 220 if q else 3500, 10)
    tasks += pool.batches("strings", 150 if q else 2000, 10) + pool.batches("corpus", len(workload.corpus()), 2)
    tasks += pool.batches("pairs", 160 if q else 2500, 10)
    tasks += pool.batches("longlines", 120 if q else 2000, 10) + pool.batches("modules", 200 if q else 3000, 10)
    for hz in ("ifexp_else_load",):
        tasks += pool.batches(f"defect:{hz}", 30 if q else 300, 10)
    return dict(tasks=tasks, nworkers=14, time_cap=85 if q else 880)


def worker_init():
    H.repo()


def gen_case(task, i):
    st = task["stream"]
    r = rng(seed_env(), ID, st, i, "v")
    base = dict(append_version=False, original_code_as_comment=False, generated_comments=False, inline_functions=r.random() < 0.35, compact=r.random() < 0.5, tail_call_optimization=False, use_push_pop_functions=r.random() < 0.4)
    if st.startswith("names:"):
        kind = st.split(":")[1]
        c, _ = workload.gen_program(ID, st, i, names_pool=gen_names.pool(kind), max_funcs=4)
        src = c["src"]
    elif st == "strings":
        c, _ = workload.gen_program(ID, st, i, names_pool=gen_names.pool("prefix"))
        src = c["src"]
        fm = funcs_of(src)
        names = [f["name"] for f in fm] or ["update"]
        n = r.choice(names)
        src += f'    db.Setting = HASH("{n}")\n    d0.Setting = HASH("{n.replace("_", ".")}")\n    d1.Setting = HASH("a {n} b")\n'
        if r.random() < 0.6:
            # a quoted operand containing '#' (or a label name) on a branch line: the label operand comes after it
            q = r.choice(["Slot#1", "a#b", f"{n}#", "#", "x # y", f"# {n.replace('_', '.')}"])
            src += f'    if d0.Setting == HASH("{q}"):\n        d2.Setting = 1\n    if d1.Setting != STR("{q[:6]}"):\n        d3.Setting = 2\n    else:\n        d3.Setting = 3\n'
    elif st == "corpus":
        src = workload.corpus_case(i)["src"]
        base["inline_functions"] = bool(i & 1)
    elif st == "pairs":
        from .. import gen_shapes

        src = gen_shapes.pair_program(r)
        base["inline_functions"] = r.random() < 0.6
    elif st == "longlines":
        # every emitted line is long (source comments, one instruction per statement): the version tag finds no
        # line to sit on - whatever the compiler does then must leave the numeric targets right
        from .. import gen_shapes

        src = gen_shapes.longline_program(r)
        base.update(append_version=True, original_code_as_comment=True, compact=False, generated_comments=r.random() < 0.3)
    elif st == "modules":
        # library modules whose functions return early, and (often) a main-script function carrying the bare name
        # of a library function: '<module>.<f>end' and '<f>end' are different labels
        from . import c13

        cc = c13.gen_case(dict(stream="split"), i)
        src, _ = c13.render(cc)
        if r.random() < 0.6:
            f = r.choice(r.choice(cc["mods"])["funcs"])[0]
            ls = src[""].split("\n")
            k = max(j for j, l in enumerate(ls) if l.startswith("from library import")) + 1
            ls[k:k] = [f"def {f}(q):", "    if q > 3:", "        return 1", "    d5.Setting = q", "    return 2"]
            src[""] = "\n".join(ls) + f"    d4.Setting = {f}(d3.Setting)\n"
    else:
        src = workload.gen_program(ID, st, i)[0]["src"]
    if st not in ("longlines",) and r.random() < 0.25:
        # the relation is on instructions (the tokeniser drops comments), so the comment options may be on
        base.update(append_version=r.random() < 0.7, original_code_as_comment=r.random() < 0.5, generated_comments=r.random() < 0.5)
    return dict(src=src, options=base, env_seeds=[f"{i}:0", f"{i}:1"], stream=st)


def relation(labelled, free):
    """-> list of problems of the text relation"""
    pl = ic10_isa.Program(labelled)
    pf = ic10_isa.Program(free)
    m = label_index_map(pl)
    ins = [t for t in pl.lines if t is not None]
    fin = [t for t in pf.lines if t is not None]
    probs = []
    if pf.labels:
        probs.append(dict(event="label-left-in-label-free-output", labels=sorted(pf.labels)[:5]))
    if len(ins) != len(fin):
        probs.append(dict(event="instruction-count-differs", labelled=len(ins), free=len(fin)))
        return probs, m
    for k, (a, b) in enumerate(zip(ins, fin)):
        want = [str(m[t]) if t in m else t for t in a]
        if want != b:
            probs.append(dict(event="line-differs", index=k, labelled=" ".join(a), expected=" ".join(want), got=" ".join(b)))
            if len(probs) >= 3:
                break
    return probs, m


def check_case(case):
    src = case["src"]
    o = dict(case["options"])
    cnt = dict(pairs=0, successes=0, errors=0, asymmetric=0, labels_defined=0, labels_substituted=0, tokens_compared=0, lockstep_runs=0, lockstep_steps=0, unmodelled=0, loader_events=0, pairs_with_comments_or_tag=0, version_tag_found_no_line=0)
    vio = []
    feats = [case.get("stream", "?")]
    a = H.compile_src(src, dict(o, remove_labels=False))
    b = H.compile_src(src, dict(o, remove_labels=True))
    cnt["pairs"] = 1
    oka = isinstance(a, dict) and isinstance(a.get("code"), str)
    okb = isinstance(b, dict) and isinstance(b.get("code"), str)
    if not (oka and okb):
        cnt["errors"] = 1
        if oka != okb:
            cnt["asymmetric"] = 1
        return dict(verdict="skip", counters=cnt, violations=[], features=feats)
    cnt["successes"] = 1
    ca, cb = a["code"], b["code"]
    if o.get("append_version") or o.get("original_code_as_comment") or o.get("generated_comments"):
        cnt["pairs_with_comments_or_tag"] = 1
    if o.get("append_version") and "Generated by" not in cb:
        cnt["version_tag_found_no_line"] = 1
    problems = []
    pa, eva = ic10_isa.load(ca)
    pb, evb = ic10_isa.load(cb)
    for mode, evs in (("kept", eva), ("removed", evb)):
        for e in evs:
            if e["event"] in ("duplicate-label", "undefined-label", "jump-out-of-program") or (e["event"] == "bad-token" and e["opcode"] in ic10_isa.JUMPS and e["operand"] == len(ic10_isa.ISA[e["opcode"]]) - 1):
                problems.append(dict(signature=dict(monitor="loader", event=e["event"], labels=mode, opcode=e["opcode"], token_class=e["token_class"]), detail=dict(text=e["text"], token=e["token"])))
            else:
                cnt["loader_events"] += 1
    rel, m = relation(ca, cb)
    cnt["labels_defined"] = len(pa.labels)
    used = set()
    for t in pa.lines:
        if t:
            cnt["tokens_compared"] += len(t)
            used.update(x for x in t[1:] if x in m)
    cnt["labels_substituted"] = len(used)
    for p in rel:
        problems.append(dict(signature=dict(monitor="text-relation", event=p["event"]), detail=p))
    # lock-step execution
    notrig = None
    if not problems:
        lits = H.literals(src)
        line2idx = {}
        k = 0
        for ln, t in enumerate(pa.lines):
            if t is not None:
                line2idx[ln] = k
                k += 1
        idx_b = {}
        k = 0
        for ln, t in enumerate(pb.lines):
            if t is not None:
                idx_b[ln] = k
                k += 1
        for es in case["env_seeds"]:
            va = H.run_vm(ca, es, lits, prog=pa, soft=True, path=True, max_steps=20000, max_effects=80)
            vb = H.run_vm(cb, es, lits, prog=pb, soft=True, path=True, max_steps=20000, max_effects=80)
            if "unmodelled" in (va["status"], vb["status"]):
                cnt["unmodelled"] += 1
                continue
            cnt["lockstep_runs"] += 1
            path_a = [line2idx[x] for x in va["path"]]
            path_b = [idx_b[x] for x in vb["path"]]
            n = min(len(path_a), len(path_b))
            cnt["lockstep_steps"] += n
            dv = next((j for j in range(n) if path_a[j] != path_b[j]), None)
            if dv is not None:
                problems.append(dict(signature=dict(monitor="lock-step", event="path-diverges"), detail=dict(step=dv, labelled_instr=path_a[dv], free_instr=path_b[dv], env=es, at=" ".join([t for t in pa.lines if t is not None][path_a[dv - 1]]) if dv else "")))
                break
            verdict, info = H.compare_traces(va, vb, "labelled", "free")
            if verdict == "differ":
                problems.append(dict(signature=dict(monitor="lock-step", event="effects-differ:" + info["kind"]), detail=dict(info=info, env=es)))
                break
            # "it is the location of the construct it was generated for": the labelled run against the source's own
            # control flow (reference interpreter) - only for sources in which no known-finding trigger holds, so that
            # every difference is new
            if notrig is None:
                notrig = not (triggers_of(src) + label_triggers(src))
            if notrig and not va["events"]:
                main_src = src if isinstance(src, str) else src.get("", "")
                mods_only = None if isinstance(src, str) else {k: v for k, v in src.items() if k}
                mk = lambda perturb=False: H.run_ref(main_src, es, lits, modules=mods_only, perturb=perturb, max_steps=20000, max_effects=80)
                ref = mk()
                if ref["status"] != "not-judged":
                    cnt["ref_runs"] = cnt.get("ref_runs", 0) + 1
                    v2, i2, _c = H.compare_conditioned(va, ref, "labelled", "source", ref, lambda: mk(True))
                    nan_at = (ref.get("stat") or {}).get("nan_test_at")
                    if v2 == "differ" and nan_at is not None and nan_at <= i2.get("index", 1 << 30):
                        # the dynamic trigger of the NaN-test finding holds (C01 reports it): not judged here
                        cnt["source_trace_not_judged_nan_test"] = cnt.get("source_trace_not_judged_nan_test", 0) + 1
                    elif v2 == "differ":
                        problems.append(dict(signature=dict(monitor="source-trace", event="jump-lands-elsewhere:" + i2["kind"]), detail=dict(info=i2, env=es)))
                        break
    if problems:
        trig = triggers_of(src) + label_triggers(src)
        for p in problems:
            p["triggers"] = trig
            p["detail"] = dict(p["detail"], options=opts_key(o), labelled=ca[:1800], free=cb[:1200])
        vio = problems
    res = dict(verdict="violated" if vio else "held", counters=cnt, violations=vio, features=feats)
    if used:
        res["key"] = sha([src, opts_key(o)])
    res["sample"] = dict(options=opts_key(o), labels=sorted(pa.labels)[:8], label_map={k: m[k] for k in sorted(m)[:8]}, free_head=cb[:200])
    return res


def label_triggers(src):
    """C05-specific trigger predicates on the function / module names of the source."""
    import re

    from .. import enums as E

    t = []
    fm = funcs_of(src)
    labels = [f["label"] for f in fm]
    ends = [l + "end" for l in labels]
    if len(set(labels)) != len(labels) or set(labels) & set(ends):
        t.append("label_collision_after_mangling")
    if any(re.match(r"^lb(while|else|end|for|for\.body|for\.end|while\.end|for\.continue)\d+$", l) for l in labels):
        t.append("label_collision_after_mangling")
    bare = set()
    for k in ("T", "S", "B", "M"):
        bare.update(E.positional(k))
    if any(l in bare for l in labels):
        t.append("function_named_like_logic_type")
    return t


def run_case(task, i):
    c = gen_case(task, i)
    r = check_case(c)
    if r["violations"]:
        r["case"] = c
    elif i % 40:
        r.pop("sample", None)
    return r


def finish(agg, tier):
    c = agg["counters"]
    if c.get("successes", 0) < 200 or c.get("labels_substituted", 0) < 500 or c.get("lockstep_runs", 0) < 200:
        return dict(inconclusive=f"too little observed: {dict(c)}")
    return None
