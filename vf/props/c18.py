"""C18 — share links round-trip: decode_data(encode_data(d)) == d, URL-safe alphabet."""
import base64
import json
import math
import re
import zlib

from .. import pool
from ..common import ensure_repo_on_path, rng, seed_env, sha

ID = "C18"
LEVEL = "exploration"
RULE = (
    "cases are JSON-native dictionaries drawn from a seeded generator (share-link shaped {code, options} with real "
    "program text, arbitrary nested dicts/lists, dictionaries keyed by the project's own vocabulary (option names in both spellings, identifiers of the web front end, string literals of the package), big ints, floats, any Unicode incl. NUL and lone surrogates, every line-ending convention (CR LF, CR, LF, mixed, NEL, U+2028, BOM) in program text and in other strings, and "
    "length sweeps that walk the base64 length through every residue mod 4); a case is non-trivial when its encoded "
    "form is longer than 8 characters; distinct = distinct sha1 of the JSON text of d"
)
ASSUMPTIONS = [
    "the oracle is the identity decode(encode(d)) == d itself plus a character-class check on the encoded text",
    "dictionaries are JSON-native (string keys, no NaN/inf, no tuples): for other Python values json itself is lossy, which the property does not cover",
]
TRUSTED = ["python json/zlib/base64 used by the monitor to classify which cases exercised '+', '/', and each padding length"]

_SAFE = re.compile(r"^[A-Za-z0-9_-]*$")
_types = None


def worker_init():
    global _types
    ensure_repo_on_path()
    from stationeers_pytrapic import types as T

    _types = T


def plan(tier, seed):
    n = 200_000 if tier == "quick" else 3_000_000
    size = 2500 if tier == "quick" else 10000
    tasks = pool.batches("gen", n, size) + pool.batches("sweep", 4000 if tier == "quick" else 40000, 1000) + pool.batches("large", 28 if tier == "quick" else 140, 2)
    return dict(tasks=tasks, nworkers=14, time_cap=100 if tier == "quick" else 900)


_ALPH = [
    "abcdefghijklmnopqrstuvwxyz",
    "ABC xyz 0123456789 \n\t",
    "äöüßéèñ¿¡",
    "\u0000\u0001\u007f\u0080ÿ",
    "日本語中文한국어",
    "\U0001F600\U0001F680\U00010000\U0010FFFF",
    "𐏿\udc00",
    "\"'\\/+=-_#%&?",
]


# line separators as units: a text layer that "tidies" line endings or whitespace must not sit in the round trip
_ENDINGS = ["\r\n", "\r", "\n", "\r\r\n", "\n\r", "\u0085", "\u2028", "\u2029", "\x0b", "\x0c", " \n", "\t\r\n", "\ufeff"]


def _text(r, maxlen):
    n = r.randrange(0, maxlen)
    k = r.random()
    if k < 0.3:
        a = list(_ALPH[0] + _ALPH[1])
    elif k < 0.5:
        a = list("".join(_ALPH))
    else:
        a = list(r.choice(_ALPH) + _ALPH[0])
    if r.random() < 0.4:
        a += _ENDINGS
    return "".join(r.choice(a) for _ in range(n))


def _num(r):
    k = r.random()
    if k < 0.3:
        return r.randrange(-1000, 1000)
    if k < 0.45:
        return r.choice([-1, 1]) * r.getrandbits(r.choice([31, 32, 53, 63, 64, 65, 128, 300]))
    if k < 0.8:
        return r.choice([0.0, -0.0, 0.1, 1e-320, 5e-324, 1.7976931348623157e308, 2.5, 1 / 3, 1e22, 123456789.123456789, r.uniform(-1e6, 1e6), math.ldexp(r.random(), r.randrange(-1074, 1023))])
    return r.choice([True, False, None])


def _value(r, depth):
    k = r.random()
    if depth > 3 or k < 0.35:
        return _num(r)
    if k < 0.6:
        return _text(r, 40)
    if k < 0.8:
        return [_value(r, depth + 1) for _ in range(r.randrange(0, 5))]
    return {_text(r, 10): _value(r, depth + 1) for _ in range(r.randrange(0, 5))}


_PROG = None
_VOCAB = None


def _vocab():
    """Keys that mean something to the project: option field names (both spellings), identifiers of the web front end that
    builds and reads share links, and the package's own string literals.  A decoder that 'normalises' a known key is not an identity."""
    global _VOCAB
    if _VOCAB is None:
        import dataclasses

        from ..common import PKG, REPO

        v = {"code", "options", "version", "libraries", "name", "data", "v", "id", "source", "lang", "lua", "python"}
        try:
            from stationeers_pytrapic.compile_pass import CompileOptions

            for f in dataclasses.fields(CompileOptions):
                v.update({f.name, f.name.replace("_", "-"), "no_" + f.name, f.name.split("_")[0], f.name.split("_")[-1]})
        except Exception:
            pass
        for f in [REPO / "webapp" / "src" / "index.ts", PKG / "types.py", PKG / "compiler.py", PKG / "mod_daemon.py"]:
            try:
                t = open(f, encoding="utf-8").read()
            except Exception:
                continue
            v.update(re.findall(r"""["']([A-Za-z_][A-Za-z0-9_-]{1,24})["']""", t))
            if str(f).endswith(".ts"):
                v.update(re.findall(r"\bdata\.([A-Za-z_]\w{1,24})", t))
                v.update(re.findall(r"\b([a-z_][a-z0-9_]{2,24})\s*:", t))
        _VOCAB = sorted(v)
    return _VOCAB


def _programs():
    global _PROG
    if _PROG is None:
        import glob

        from ..common import PKG, REPO

        _PROG = []
        for f in sorted(glob.glob(str(PKG / "examples" / "*.py")) + glob.glob(str(REPO / "test" / "cases" / "*.py"))):
            try:
                _PROG.append(open(f, encoding="utf-8").read())
            except Exception:
                pass
        if not _PROG:
            _PROG = ["db.Setting = 1\n"]
    return _PROG


def gen_case(task, i):
    r = rng(seed_env(), ID, task["stream"], i)
    if task["stream"] == "large":
        # texts whose JSON form passes 64 KiB, 1 MiB, 4 MiB (size limits, chunked decompression)
        target = [65000, 65536, 70000, 1 << 20, (1 << 20) + 17, 1_300_000, 3_000_000][i % 7] + r.randrange(0, 40)
        kind = (i // 7) % 4
        if kind == 0:
            body = "db.Setting = 1\n" * (target // 15 + 1)
        elif kind == 1:
            body = "".join(r.choice(_ALPH[0]) for _ in range(2000)) * (target // 2000 + 1)
        elif kind == 2:
            body = "日本語中文" * (target // 30 + 1)  # 6 bytes of JSON text per character
        else:
            body = "".join(chr(r.randrange(32, 127)) for _ in range(target))
        counters_hint = len(json.dumps(body))
        return dict(d={"code": body, "options": {"compact": bool(i & 1)}}, json_len=counters_hint)
    if task["stream"] == "sweep":
        # sweep lengths so that every base64 residue and padding length occurs
        n = i % 700
        ch = r.choice(["a", "Z", "ÿ", "\U0001F600", "~", "?", ">"])
        return dict(d={"code": ch * n + _text(r, 6), "o": r.randrange(0, 256)})
    k = r.random()
    if k < 0.35:
        src = r.choice(_programs())
        if r.random() < 0.5:
            a = r.randrange(0, len(src) + 1)
            src = src[: a] + _text(r, 30) + src[a:]
        if r.random() < 0.4:
            # the same program as another editor / platform would have saved it
            e = r.choice(_ENDINGS[:5])
            src = "".join((e if r.random() < 0.9 else r.choice(_ENDINGS)) if ch == "\n" else ch for ch in src)
            if r.random() < 0.3:
                src = "\ufeff" + src
        opts = {n: r.random() < 0.5 for n in ("compact", "inline_functions", "remove_labels", "append_version") if r.random() < 0.7}
        return dict(d={"code": src, "options": opts})
    if k < 0.5:
        return dict(d={"code": _text(r, 3000), "options": {}})
    if k < 0.62:
        # keys the project itself knows, in subsets: top level, under "options", and one level down
        voc = _vocab()
        d = {r.choice(voc): _value(r, 2) for _ in range(r.randrange(1, 5))}
        if r.random() < 0.4:
            d["options"] = {r.choice(voc): _num(r) for _ in range(r.randrange(0, 4))}
        if r.random() < 0.3:
            d[_text(r, 6)] = {r.choice(voc): _value(r, 3) for _ in range(r.randrange(1, 3))}
        return dict(d=d, vocab=1)
    return dict(d={_text(r, 12): _value(r, 0) for _ in range(r.randrange(0, 7))})


def check_case(case):
    d = case["d"]
    counters = {"roundtrips": 1}
    if case.get("vocab"):
        counters["dict_with_project_vocabulary_keys"] = 1
    if case.get("json_len"):
        counters["json_over_64KiB"] = int(case["json_len"] > 65536)
        counters["json_over_1MiB"] = int(case["json_len"] > (1 << 20))
    js = json.dumps(d)
    for name, pat in (("crlf", "\\r\\n"), ("lone_cr", "\\r"), ("unicode_line_separator", "\\u2028"), ("bom", "\\ufeff")):
        if pat in js:
            counters["text_with_" + name] = 1
    vio = []
    enc = None
    try:
        enc = _types.encode_data(d)
    except Exception as e:
        vio.append(dict(signature=dict(monitor="roundtrip", event="encode-raised", exc=type(e).__name__), triggers=[], detail=repr(e)))
    if enc is not None:
        if not isinstance(enc, str) or not _SAFE.match(enc):
            bad = sorted(set(re.sub(r"[A-Za-z0-9_-]", "", enc))) if isinstance(enc, str) else type(enc).__name__
            vio.append(dict(signature=dict(monitor="alphabet", event="non-url-safe-character"), triggers=[], detail=f"characters {bad!r}"))
        # what did this case exercise?  (independent re-encoding with the standard alphabet)
        try:
            std = base64.b64encode(zlib.compress(json.dumps(d).encode())).decode()
            counters["std_has_plus"] = int("+" in std)
            counters["std_has_slash"] = int("/" in std)
            counters[f"pad_{std.count('=')}"] = 1
            counters[f"len_mod4_{len(std.rstrip('=')) % 4}"] = 1
        except Exception:
            counters["monitor_reencode_failed"] = 1
        try:
            back = _types.decode_data(enc)
            if back != d or json.dumps(back, sort_keys=True) != json.dumps(d, sort_keys=True):
                vio.append(dict(signature=dict(monitor="roundtrip", event="mismatch"), triggers=[], detail=f"encoded length {len(enc)}; d={json.dumps(d)[:300]} back={json.dumps(back)[:300]}"))
        except Exception as e:
            vio.append(dict(signature=dict(monitor="roundtrip", event="decode-raised", exc=type(e).__name__), triggers=[], detail=f"{e!r}; encoded length {len(enc)} tail {enc[-8:]!r}"))
    r = dict(verdict="violated" if vio else "held", counters=counters, violations=vio)
    if enc is not None and len(enc) > 8:
        r["key"] = sha(json.dumps(d, sort_keys=True))
    if enc is not None:
        r["sample"] = dict(d=json.dumps(d)[:200], encoded=enc[:80], encoded_len=len(enc))
    return r


def run_case(task, i):
    c = gen_case(task, i)
    r = check_case(c)
    if r["violations"]:
        r["case"] = c
    else:
        r.pop("sample", None) if i % 997 else None
    return r


def finish(agg, tier):
    c = agg["counters"]
    need = ["std_has_plus", "std_has_slash", "pad_0", "pad_1", "pad_2", "text_with_crlf", "text_with_lone_cr", "text_with_unicode_line_separator", "json_over_1MiB", "dict_with_project_vocabulary_keys"]
    missing = [k for k in need if not c.get(k)]
    if missing or c.get("roundtrips", 0) < 1000:
        return dict(inconclusive=f"monitor never saw: {missing} (roundtrips={c.get('roundtrips', 0)})")
    return dict(coverage=dict(exhaustive=False))
