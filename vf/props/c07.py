"""C07 — when the top-level script finishes, nothing else runs (region monitor + termination vs the source)."""
from .. import gen_shapes, harness as H
from .. import pool, workload
from ..common import HEADER, rng, seed_env, sha
from ._exec import CORNERS, judge_program

ID = "C07"
LEVEL = "exploration"
RULE = (
    "a case is a source with functions compiled under the eight {inline, tail-call, push/pop} corners and run on the "
    "reference machine with the region monitor armed: function regions (from the function labels) may be entered "
    "only by jal to the entry or by a tail jump from inside a call; sequential flow onto an entry is a fall-through "
    "event.  For sources whose top-level code terminates the reference interpreter supplies 'main ended after "
    "exactly these effects': the chip must halt with the same effects (a proved state cycle or further effects are "
    "violations, a step cap is inconclusive).  non-trivial = a function region exists in the output and main "
    "terminated or a call was executed; distinct = sha1(source)"
)
ASSUMPTIONS = [
    "function entries are the labels of the source's functions as the transpiler spells them (read from the source by the harness)",
    "a program counter past the last line halts the chip",
]
TRUSTED = ["vf/ic10_vm.py region monitor and divergence detector", "vf/pyref.py for 'main has ended'"]


def plan(tier, seed):
    q = tier == "quick"
    tasks = pool.batches("terminating", 400 if q else 6000, 10) + pool.batches("endless", 250 if q else 4000, 10) + pool.batches("tail", 200 if q else 3000, 10) + pool.batches("inlined", 200 if q else 2000, 10) + pool.batches("corpus", len(workload.corpus()), 2) + pool.batches("modules", 120 if q else 2000, 10)
    for hz in ("tail_early_return",):
        tasks += pool.batches(f"defect:{hz}", 30 if q else 300, 10)
    return dict(tasks=tasks, nworkers=14, time_cap=85 if q else 880)


def worker_init():
    H.repo()


def gen_case(task, i):
    st = task["stream"]
    r = rng(seed_env(), ID, st, i)
    vs = [dict(c, append_version=False, remove_labels=r.random() < 0.5) for c in CORNERS]
    if st == "terminating":
        # top-level code terminates and calls functions: every non-inlined vector must still stop
        if i % 5 == 4:
            # helper inlined into a host whose name is a suffix of the helper's name, top-level code that ends
            src = gen_shapes.suffix_program(r, terminating=True)
        else:
            c, _ = workload.gen_program(ID, "defect:terminating_main", i, feats=dict(terminating_main=True))
            src = c["src"]
    elif st == "inlined":
        # terminating main, every function called exactly once -> all inlined under the default vector
        c, _ = workload.gen_program(ID, "defect:terminating_main", i, feats=dict(terminating_main=True), max_funcs=1)
        src = c["src"]
        vs = [dict(append_version=False), dict(append_version=False, remove_labels=True, compact=True)] + vs[:3]
    elif st == "tail":
        src = gen_shapes.tail_program(r)
    elif st == "corpus":
        src = workload.corpus_case(i)["src"]
    elif st == "modules":
        from . import c13

        src = c13.multi_with_main_function(i, r, same_name=0.8)
    elif st == "endless":
        src = gen_shapes.echo_program(r) if i % 2 else workload.gen_program(ID, st, i)[0]["src"]
    else:
        src = workload.gen_program(ID, st, i)[0]["src"]
    return dict(src=src, vectors=vs, env_seeds=[f"{i}:0", f"{i}:1"], stream=st)


def check_case(case):
    return judge_program(case, "region")


def run_case(task, i):
    c = gen_case(task, i)
    r = check_case(c)
    if r["violations"]:
        r["case"] = c
    elif i % 40:
        r.pop("sample", None)
    return r


def finish(agg, tier):
    c = agg["counters"]
    if c.get("vm_runs", 0) < 500 or c.get("halted_with_source", 0) < 20:
        return dict(inconclusive=f"region monitor saw too little: runs={c.get('vm_runs', 0)} clean halts together with the source={c.get('halted_with_source', 0)}")
    return None
