"""C14 — the compile daemon answers every request with exactly one line (line-protocol checker on the real process)."""
import base64
import json
import os
import select
import shutil
import subprocess
import tempfile
import time

from .. import gen_text, harness as H
from .. import pool, workload
from ..common import HEADER, OPTION_NAMES, PYTHON, REPO_SRC, opts_from_bits, rng, seed_env, sha

ID = "C14"
LEVEL = "exploration"
RULE = (
    "a case is a session with the real daemon (python -m stationeers_pytrapic.mod_daemon, fresh process, scratch cwd): "
    "5-120 input lines mixing valid compile requests (single/multi-module, all option vectors, extra keys as the C# "
    "client sends) with faults (invalid base64, base64 of invalid UTF-8, invalid JSON, JSON of the wrong shape, "
    "unknown action, missing code, code as a string, unknown option, options null, sources that crash the compiler, "
    "constexpr bodies that print / exit / never terminate, very long lines, raw non-UTF-8 bytes, CRLF endings, truly "
    "empty lines, EXIT in the middle, missing final newline); every valid request carries a unique marker literal, "
    "so the answer at position i must contain marker i (or be an error object for a request built to fail); two "
    "client modes: lock-step (write one line, read one line, like PyTrapIC.cs) and burst (everything, then EOF); the "
    "verdict is taken after the process has exited: number of stdout lines == number of non-empty request lines "
    "before EXIT, each line base64 of a JSON object, in request order, nothing else on stdout, exit status 0; "
    "non-trivial = a session with at least one fault line followed by a valid request; distinct = sha1(session)"
)
ASSUMPTIONS = [
    "whitespace-only lines are not generated (the property does not say whether they count as non-empty)",
    "a session that does not finish within the generous wall-clock bound is inconclusive, not a violation",
]
TRUSTED = ["pipe capture of the daemon's stdout", "python base64/json for decoding the answers"]


def plan(tier, seed):
    q = tier == "quick"
    return dict(tasks=pool.batches("session", 120 if q else 1800, 2, tier=tier), nworkers=10, time_cap=85 if q else 880, timeout=200, max_samples=2)


def worker_init():
    pass


def _b64(obj):
    return base64.b64encode(json.dumps(obj).encode("utf-8"))


def _valid(r, marker, fail=False):
    k = r.random()
    opts = opts_from_bits(r.randrange(256)) if r.random() < 0.7 else {n: bool(r.getrandbits(1)) for n in OPTION_NAMES if r.random() < 0.5}
    if fail:
        src = HEADER + r.choice(["db.Setting = (\n", "def f(a):\n    return f(a)\ndb.Setting = f(1)\n", "class A: pass\n", "x = Furnace(d0)\nx = Furnace(d1)\n", "db = 5\n"])
        code = {"": src}
    elif k < 0.7:
        code = {"": HEADER + f"db.Setting = {marker}\nd0.Mode = d1.Setting + {r.randint(0, 9)}\n"}
    elif k < 0.85:
        code = {"": HEADER + f"from library import lib\ndb.Setting = {marker}\nlib.f(d0.Setting)\nlib.f(2)\n", "lib": HEADER + "def f(a):\n    db.Mode = a\n"}
    else:
        code = {"": HEADER + f"def g(a):\n    db.Mode = a\nwhile True:\n    db.Setting = {marker}\n    g(d0.Setting)\n    g(1)\n    yield_()\n"}
    if not fail and r.random() < 0.35:
        # directive lines, also with unknown / mistyped names (they must stay silent)
        d = r.choice(["# pytrapic: compact", "# pytrapic: no-labels, compact", "# pytrapic: remove-labels, fast", "# pytrapic: __class__", "#pytrapic:no-append-version,,", "# pytrapic: inline_functions, no-such-option"])
        code[""] = d + "\n" + code[""]
    msg = dict(action="compile", code=code, options=opts)
    if r.random() < 0.3:
        msg.update(lineno=r.randint(0, 50), column=r.randint(0, 80), filename="x.py")
    return _b64(msg)


def _fault(r):
    k = r.randrange(19)
    if k == 0:
        return b"!!!not base64!!!", "invalid-base64"
    if k == 1:
        return base64.b64encode(b"\xff\xfe\xfa{"), "base64-of-invalid-utf8"
    if k == 2:
        return base64.b64encode(b"{not json"), "invalid-json"
    if k == 3:
        return _b64([1, 2, 3]), "json-list"
    if k == 4:
        return _b64(r.choice(["a string", 5, None, True])), "json-scalar"
    if k == 5:
        return _b64(dict(action="explode", code={"": "x = 1"})), "unknown-action"
    if k == 6:
        return _b64(dict(action="compile")), "missing-code"
    if k == 7:
        return _b64(dict(action="compile", code=HEADER + "db.Setting = 5\n", options={})), "code-as-string"
    if k == 8:
        return _b64(dict(action="compile", code={"": HEADER + "db.Setting = 5\n"}, options=dict(bogus=True))), "unknown-option"
    if k == 9:
        return _b64(dict(action="compile", code={"": HEADER + "db.Setting = 5\n"}, options=None)), "options-null"
    if k == 10:
        return _b64(dict(action="compile", code={"": HEADER + r.choice(gen_text.CONSTEXPR[1:8])}, options={})), "constexpr-misbehaves"
    if k == 11:
        return _b64(dict(action="compile", code={"": HEADER + "x = '" + "y" * r.choice([1000, 100000, 700000, 49100, 49200, 790000, 1200000, 2500000]) + "'\ndb.Setting = 1\n"}, options={})), "very-long-line"  # request lines around 64 KiB, 1 MiB and well above
    if k == 12:
        return b"\xff\xfe\x00garbage\xc3\x28", "raw-non-utf8-bytes"
    if k == 13:
        return _b64(dict(action="compile", code={"notmain": "x = 1"}, options={})), "no-main-module"
    if k == 14:
        return _b64(dict(action="compile", code={"": 5}, options={})), "main-not-a-string"
    if k == 15:
        return base64.b64encode(b"\xe2\x82"), "base64-of-truncated-utf8"
    if k == 16:
        # JSON may carry a lone surrogate as an escape: the answer has to be encodable all the same
        return base64.b64encode(b'{"action": "\\ud800", "code": {"": "x = 1"}}'), "surrogate-in-action"
    if k == 17:
        return base64.b64encode(b'{"action": "compile", "code": {"": "db.Setting = 1\\n"}, "options": {"\\udc00": true}}'), "surrogate-in-option-name"
    return base64.b64encode(b'{"action": "compile", "code": {"": "from stationeers_pytrapic.symbols import *\\ns0 = STR(\\"\\ud800\\")\\ndb.Setting = s0\\n"}, "options": {"compact": false}}'), "surrogate-in-source"


def gen_case(task, i):
    r = rng(seed_env(), ID, task["stream"], i)
    n = r.randint(5, 120) if task.get("tier") == "thorough" else r.randint(5, 45)
    lines = []
    marker = 1000 + (i * 131) % 3000  # <= 10000: larger integers are emitted as $HEX
    exit_at = r.randrange(n) if r.random() < 0.25 else None
    for k in range(n):
        if exit_at is not None and k == exit_at:
            lines.append(dict(kind="exit", data="EXIT"))
            continue
        x = r.random()
        if x < 0.5:
            marker += 1
            lines.append(dict(kind="valid", marker=marker, data=_valid(r, marker).decode()))
        elif x < 0.56:
            lines.append(dict(kind="valid-fail", data=_valid(r, 0, fail=True).decode()))
        elif x < 0.62:
            # any text at all as the main source (hostile texts of C10): some object must come back
            t = r.choice(gen_text.UNSUPPORTED + gen_text.PRAGMA + gen_text.LUA + gen_text.RECURSION)
            if r.random() < 0.5:
                t = gen_text.mutate(HEADER + t, r)
            lines.append(dict(kind="any", data=_b64(dict(action="compile", code={"": t}, options=opts_from_bits(r.randrange(256)))).decode()))
        elif x < 0.68:
            lines.append(dict(kind="empty", data=""))
        else:
            d, name = _fault(r)
            lines.append(dict(kind="fault", fault=name, data=base64.b64encode(d).decode(), raw=True))
    return dict(lines=lines, mode=r.choice(["lockstep", "burst", "burst"]), crlf=r.random() < 0.2, final_newline=r.random() < 0.85, stream=task["stream"])


def _wire(case):
    out = []
    for l in case["lines"]:
        b = base64.b64decode(l["data"]) if l.get("raw") else l["data"].encode()
        out.append(b)
    return out


def check_case(case):
    cnt = dict(sessions=1, lines_sent=0, answers_expected=0, answers_received=0, answers_matched=0, faults_sent=0, valid_sent=0, empty_sent=0, lockstep_sessions=int(case["mode"] == "lockstep"), exit_in_middle=0, sessions_timed_out=0, daemon_start_failed=0)
    wire = _wire(case)
    nl = b"\r\n" if case.get("crlf") else b"\n"
    expected = []
    for l in case["lines"]:
        if l["kind"] == "exit":
            cnt["exit_in_middle"] = 1
            break
        if l["kind"] == "empty":
            cnt["empty_sent"] += 1
            continue
        expected.append(l)
    cnt["answers_expected"] = len(expected)
    cnt["faults_sent"] = sum(1 for l in expected if l["kind"] == "fault")
    cnt["valid_sent"] = sum(1 for l in expected if l["kind"].startswith("valid"))
    tmp = tempfile.mkdtemp(prefix="c14.")
    env = dict(os.environ, PYTHONPATH=str(REPO_SRC), PYTHONHASHSEED="0")
    env.pop("PYTRAPIC_VERIF", None)
    env.pop("PYTHONDONTWRITEBYTECODE", None)
    if os.environ.get("VERIF_PYCACHE"):
        env["PYTHONPYCACHEPREFIX"] = os.environ["VERIF_PYCACHE"]
    else:
        env["PYTHONDONTWRITEBYTECODE"] = "1"
    vio = []
    out = b""
    rc = None
    try:
        p = subprocess.Popen([PYTHON, "-m", "stationeers_pytrapic.mod_daemon"], stdin=subprocess.PIPE, stdout=subprocess.PIPE, stderr=subprocess.DEVNULL, cwd=tmp, env=env, bufsize=0)
        deadline = time.time() + 150
        try:
            if case["mode"] == "burst":
                data = nl.join(wire) + (nl if case.get("final_newline") else b"")
                cnt["lines_sent"] = len(wire)
                try:
                    out, _ = p.communicate(data, timeout=150)
                except subprocess.TimeoutExpired:
                    cnt["sessions_timed_out"] = 1
                    p.kill()
                    out, _ = p.communicate()
                rc = p.returncode
            else:
                fd = p.stdout.fileno()
                buf = b""
                stopped = False
                for k, (l, w) in enumerate(zip(case["lines"], wire)):
                    try:
                        p.stdin.write(w + nl)
                        p.stdin.flush()
                    except (BrokenPipeError, OSError):
                        break
                    cnt["lines_sent"] += 1
                    if l["kind"] == "exit":
                        break
                    if l["kind"] == "empty":
                        continue
                    # like the C# client: one ReadLine per request (bounded; the verdict is taken after exit)
                    t_end = min(deadline, time.time() + 60)
                    needed = sum(1 for x in case["lines"][: k + 1] if x["kind"] not in ("empty", "exit"))
                    while buf.count(b"\n") < needed:
                        left = t_end - time.time()
                        if left <= 0:
                            # the client's own patience ran out (loaded machine): the session says nothing
                            stopped = True
                            cnt["sessions_timed_out"] = 1
                            break
                        rr, _, _ = select.select([fd], [], [], min(left, 1.0))
                        if rr:
                            chunk = os.read(fd, 1 << 16)
                            if not chunk:
                                stopped = True
                                break
                            buf += chunk
                        elif p.poll() is not None:
                            stopped = True
                            break
                    if stopped:
                        break
                try:
                    p.stdin.close()
                except Exception:
                    pass
                try:
                    rest = p.stdout.read()
                    buf += rest or b""
                    p.wait(timeout=max(1, deadline - time.time()))
                except subprocess.TimeoutExpired:
                    cnt["sessions_timed_out"] = 1
                    p.kill()
                    p.wait()
                out = buf
                rc = p.returncode
        finally:
            if p.poll() is None:
                p.kill()
                p.wait()
    except Exception as e:
        cnt["daemon_start_failed"] = 1
        shutil.rmtree(tmp, ignore_errors=True)
        return dict(verdict="inconclusive", reason="daemon-start:" + type(e).__name__, counters=cnt, violations=[], features=[case["stream"]])
    shutil.rmtree(tmp, ignore_errors=True)
    if cnt["sessions_timed_out"]:
        return dict(verdict="inconclusive", reason="session-wall-clock", counters=cnt, violations=[], features=[case["stream"], case["mode"]])
    # ---- protocol checker over the captured pipe
    text = out
    got = text.split(b"\n")
    if got and got[-1] == b"":
        got = got[:-1]
    else:
        if text:
            vio.append(dict(signature=dict(monitor="protocol", event="last-line-unterminated"), detail=dict(tail=repr(text[-80:]))))
    cnt["answers_received"] = len(got)
    if rc != 0:
        vio.append(dict(signature=dict(monitor="process", event="exit-status-nonzero"), detail=dict(returncode=rc)))
    sent_all = cnt["lines_sent"] >= len([1 for _ in case["lines"]]) or any(l["kind"] == "exit" for l in case["lines"][: cnt["lines_sent"]])
    if len(got) != len(expected):
        first_unanswered = expected[len(got)] if len(got) < len(expected) else None
        vio.append(dict(signature=dict(monitor="protocol", event="line-count", relation="fewer" if len(got) < len(expected) else "more", after=(first_unanswered or {}).get("fault") or (first_unanswered or {}).get("kind")), detail=dict(expected=len(expected), received=len(got), returncode=rc, first_unanswered=(first_unanswered or {}).get("fault") or (first_unanswered or {}).get("kind"))))
    for k, line in enumerate(got[: len(expected)]):
        line = line.rstrip(b"\r")
        try:
            obj = json.loads(base64.b64decode(line, validate=True).decode("utf-8"))
        except Exception as e:
            vio.append(dict(signature=dict(monitor="protocol", event="answer-not-base64-json"), detail=dict(position=k, line=repr(line[:120]), why=repr(e))))
            break
        if not isinstance(obj, dict):
            vio.append(dict(signature=dict(monitor="protocol", event="answer-not-an-object"), detail=dict(position=k, value=repr(obj)[:120])))
            break
        req = expected[k]
        if req["kind"] == "valid":
            if "code" in obj and str(req["marker"]) in str(obj.get("code")):
                cnt["answers_matched"] += 1
            elif "error" in obj and H.is_timeout(obj):
                pass
            else:
                vio.append(dict(signature=dict(monitor="protocol", event="answer-does-not-belong-to-request"), detail=dict(position=k, marker=req["marker"], answer=str(obj)[:300])))
                break
        elif req["kind"] == "any":
            if "error" in obj or "code" in obj:
                cnt["answers_matched"] += 1
            else:
                vio.append(dict(signature=dict(monitor="protocol", event="answer-without-code-or-error"), detail=dict(position=k, answer=str(obj)[:300])))
                break
        else:
            if "error" in obj or (req["kind"] == "fault" and req.get("fault") in ("code-as-string", "very-long-line", "constexpr-misbehaves", "surrogate-in-source") and "code" in obj):
                cnt["answers_matched"] += 1
            else:
                vio.append(dict(signature=dict(monitor="protocol", event="fault-answered-without-error"), detail=dict(position=k, fault=req.get("fault") or req["kind"], answer=str(obj)[:300])))
                break
    for v in vio:
        v["triggers"] = []
        v["detail"] = dict(v["detail"], mode=case["mode"], crlf=case.get("crlf"), final_newline=case.get("final_newline"), kinds=[(l.get("fault") or l["kind"]) for l in case["lines"]][:60])
    res = dict(verdict="violated" if vio else "held", counters=cnt, violations=vio, features=[case["stream"], case["mode"]] + sorted({"fault:" + l["fault"] for l in case["lines"] if l["kind"] == "fault"}))
    kinds = [l["kind"] for l in expected]
    if any(a == "fault" and "valid" in kinds[j + 1 :] for j, a in enumerate(kinds)):
        res["key"] = sha([l["data"][:200] for l in case["lines"]])
    res["sample"] = dict(mode=case["mode"], kinds=[(l.get("fault") or l["kind"]) for l in case["lines"]][:30], answers=len(got), expected=len(expected), returncode=rc)
    return res


def run_case(task, i):
    c = gen_case(task, i)
    r = check_case(c)
    if r["violations"]:
        r["case"] = c
    elif i % 10:
        r.pop("sample", None)
    return r


def finish(agg, tier):
    c = agg["counters"]
    if c.get("sessions", 0) - c.get("sessions_timed_out", 0) - c.get("daemon_start_failed", 0) < 30 or c.get("answers_matched", 0) < 300:
        return dict(inconclusive=f"the daemon was barely observed: {dict(c)}")
    return None
