"""C13 — library modules behave like the same code written in the main file (multi-module vs merged single file)."""
from .. import harness as H
from .. import ic10_isa, pool
from ..common import HEADER, opts_from_bits, opts_key, rng, seed_env, sha
from ..progcheck import Compiled, event_sig, first_event, funcs_of
from ..triggers import triggers_of
from ._exec import CORNERS

ID = "C13"
LEVEL = "exploration"
RULE = (
    "a case is a program generated in two renderings from one template: split over the main file and 1-3 library "
    "modules (from library import m [as alias]; calls m.f(..) from top-level code, also inside loops and branches) and "
    "merged into a single file in which every library-level name carries a collision-free module prefix; modules "
    "deliberately share global names and function names, carry 'if __name__ == \"__main__\"' blocks with effects and "
    "functions that are never called.  Both renderings are compiled under the same 3-4 option vectors and executed "
    "on the reference machine under the same environments: effect traces must be equal (and equal to the reference "
    "interpreter run on both renderings); removing an uncalled library function must not change the output at all; "
    "non-trivial = a library function was called at run time and >= 3 effects compared; distinct = sha1(sources)"
)
ASSUMPTIONS = [
    "calls to a module function from inside a main-file function are rejected by the transpiler and therefore not generated",
    "reference machine / interpreter as in C01",
]
TRUSTED = ["vf/ic10_vm.py", "vf/pyref.py"]

MODNAMES = ["solar", "airlock", "a", "b", "util", "ctl", "a_b", "lib"]
CELLW = ["Setting", "Mode", "On", "Open", "Lock", "Activate", "Color", "Horizontal", "Vertical"]
INP = ["Temperature", "Pressure", "Power", "Charge", "Ratio"]


def plan(tier, seed):
    q = tier == "quick"
    return dict(tasks=pool.batches("split", 700 if q else 9000, 10), nworkers=14, time_cap=85 if q else 880)


def worker_init():
    H.repo()


def _gen_module(r, shared_names):
    """-> template text with {P} = prefix of library-level names, list of (fname, nparams, ret), has unused"""
    gnames = [r.choice(shared_names["g"]) for _ in range(r.randint(0, 3))]
    gnames = list(dict.fromkeys(gnames))
    fnames = list(dict.fromkeys(r.choice(shared_names["f"]) for _ in range(r.randint(1, 3))))
    L = []
    late = []  # globals defined between / after the functions (a library is free to interleave them)
    for g in gnames:
        if r.random() < 0.35:
            late.append(g)
            continue
        k = r.random()
        if k < 0.6:
            L.append(f"{{P}}{g} = d{r.randrange(6)}.{r.choice(INP)} + {r.randint(0, 9)}")
        elif k < 0.8:
            L.append(f"{{P}}{g} = (d{r.randrange(6)}.{r.choice(INP)} * 2) - (d{r.randrange(6)}.{r.choice(INP)} + {r.randint(1, 9)})")
        else:
            L.append(f"{{P}}{g} = {r.randint(2, 60)}")
            L.append(f"{{P}}{g} += d{r.randrange(6)}.{r.choice(INP)}")
    if r.random() < 0.5:
        # top-level code with a visible effect: the libraries run in the order of the import statements
        L.insert(r.randint(0, len(L)), f"d{r.randrange(6)}.{r.choice(CELLW)} = {r.randint(1000, 1999)}")
    funcs = []
    for k, f in enumerate(fnames):
        npar = r.randint(0, 3)
        ps = [f"p{j}" for j in range(npar)]
        ret = r.random() < 0.6
        if late and r.random() < 0.6:
            g0 = late.pop(0)
            L.append(f"{{P}}{g0} = d{r.randrange(6)}.{r.choice(INP)} + {r.randint(0, 9)}")
        L.append(f"def {{P}}{f}({', '.join(ps)}):")
        avail = [g for g in gnames if g not in late]
        wr = [g for g in avail if r.random() < 0.5]
        if wr:
            L.append("    global " + ", ".join("{P}" + g for g in wr))
        for p in ps:
            L.append(f"    d{r.randrange(6)}.{r.choice(CELLW)} = {p}")
        for g in wr:
            L.append(f"    {{P}}{g} = {{P}}{g} + {r.choice(ps) if ps else r.randint(1, 5)}")
        for g in avail:
            # read (almost) every module global from every function: a global that shares a register with another
            # one or with a temporary of the module's top-level code shows up here
            if r.random() < 0.85:
                L.append(f"    d{r.randrange(6)}.{r.choice(CELLW)} = {{P}}{g}")
        if funcs and r.random() < 0.3:
            h = r.choice(funcs)
            call = f"{{P}}{h[0]}({', '.join(str(r.randint(1, 9)) for _ in range(h[1]))})"
            L.append(f"    d{r.randrange(6)}.{r.choice(CELLW)} = {call}" if h[2] else f"    {call}")
        if r.random() < 0.3:
            L.append(f"    if d{r.randrange(6)}.Error:")
            L.append("        return" + (f" {r.randint(10, 99)}" if ret else ""))
        if ret:
            L.append("    return " + (" + ".join(ps) if ps else str(r.randint(1, 9))) + (f" + {{P}}{avail[0]}" if avail and r.random() < 0.5 else ""))
        elif not ps and not wr:
            L.append(f"    d{r.randrange(6)}.{r.choice(CELLW)} = {r.randint(100, 999)}")
        funcs.append((f, npar, ret))
    unused = None
    if r.random() < 0.6:
        unused = "never_called"
        L.append(f"def {{P}}{unused}(q):\n    db.Setting = q + 12345\n    return q")
    mainblock = None
    if r.random() < 0.6:
        mainblock = 'if __name__ == "__main__":\n    db.Setting = 99999\n    d0.On = 1'
        if r.random() < 0.5:
            # a constant of the library re-assigned under the guard: that code does not run when imported
            cn = "STEP" + str(r.randint(0, 9))
            L.insert(0, f"{{P}}{cn} = {r.randint(1, 9)}")
            mainblock += f"\n    {cn} = {r.randint(10, 99)}"
            funcs.append((f"rd{cn.lower()}", 0, True))
            L.append(f"def {{P}}rd{cn.lower()}():\n    return {{P}}{cn} + d0.Idle")
    return dict(text="\n".join(L), funcs=funcs, unused=unused, mainblock=mainblock)


def gen_case(task, i):
    r = rng(seed_env(), ID, task["stream"], i)
    nm = r.randint(1, 3)
    names = r.sample(MODNAMES, nm)
    shared = dict(g=["state", "count", "level", "g"], f=["update", "run", "f", "step", "update_display"])
    mods = []
    for n in names:
        m = _gen_module(r, shared)
        m["name"] = n
        m["alias"] = r.choice([None, None, "m" + n[:2], "x"]) if r.random() < 0.4 else None
        mods.append(m)
    aliases = [m["alias"] for m in mods if m["alias"]]
    if len(set(aliases)) != len(aliases):
        for m in mods:
            m["alias"] = None
    imports = []
    for m in mods:
        imports.append(f"from library import {m['name']}" + (f" as {m['alias']}" if m["alias"] else ""))
    # main body
    B = []
    main_globals = []
    if r.random() < 0.5:
        v = r.choice(["a_x", "state", "solar_state", "v"])
        B.append(f"{v} = d0.{r.choice(INP)} + 1")
        main_globals.append(v)
    calls = []

    def call(ind):
        m = r.choice(mods)
        f = r.choice(m["funcs"])
        args = ", ".join(r.choice([str(r.randint(1, 20)), f"d{r.randrange(6)}.{r.choice(INP)}"] + ([main_globals[0] + " + 1"] if main_globals else [])) for _ in range(f[1]))
        ref = ("{R" + str(mods.index(m)) + "}") + f[0]
        e = f"{ref}({args})"
        pad = "    " * ind
        if f[2] and r.random() < 0.7:
            return f"{pad}d{r.randrange(6)}.{r.choice(CELLW)} = {e}"
        return f"{pad}{e}"

    for _ in range(r.randint(0, 2)):
        B.append(call(0))
    vfs = [(k, f) for k, m in enumerate(mods) for f in m["funcs"] if f[2]]
    two = None
    if len(vfs) >= 2 and r.random() < 0.5:
        # two library results meet in one expression (each function may have this single call site only)
        (k1, f1), (k2, f2) = r.sample(vfs, 2)
        two = f"d{r.randrange(6)}.{r.choice(CELLW)} = {{R{k1}}}{f1[0]}({', '.join(str(r.randint(1, 9)) for _ in range(f1[1]))}) {r.choice(['-', '+', '*'])} {{R{k2}}}{f2[0]}({', '.join(str(r.randint(1, 9)) for _ in range(f2[1]))})"
    B.append("while True:")
    B.append("    yield_()")
    for _ in range(r.randint(1, 4)):
        k = r.random()
        if k < 0.6:
            B.append(call(1))
        elif k < 0.8:
            B.append(f"    if d{r.randrange(6)}.Error:")
            B.append(call(2))
        else:
            B.append(f"    for i{len(B)} in range({r.randint(1, 3)}):")
            B.append(call(2))
    # the caller's {name: source} mapping may list the sources in any order
    key_order = [m["name"] for m in mods] + [""]
    if r.random() < 0.6:
        r.shuffle(key_order)
    if two:
        B.append("    " + two)
    return dict(mods=mods, imports=imports, key_order=key_order, body="\n".join(B), stream=task["stream"], vectors=[dict(append_version=False), dict(append_version=False, inline_functions=False), dict(r.choice(CORNERS), append_version=False, remove_labels=r.random() < 0.5, compact=r.random() < 0.5)], env_seeds=[f"{i}:0", f"{i}:1"])


def multi_with_main_function(i, r, same_name=0.6):
    """{module: source} of case i of this generator; with probability `same_name` the main script also defines (and
    calls twice) a function that carries the bare name of a library function, has a parameter, a local and an early
    return - '<module>.<f>' and '<f>' are different functions with their own labels and registers."""
    cc = gen_case(dict(stream="split"), i)
    src, _ = render(cc)
    if r.random() < same_name:
        f = r.choice(r.choice(cc["mods"])["funcs"])[0]
        ls = src[""].split("\n")
        k = max(j for j, l in enumerate(ls) if l.startswith("from library import")) + 1
        ls[k:k] = [f"def {f}(q):", "    t = q * 2 + 1", "    if q > 3:", "        return 1", "    d5.Setting = t", "    return 2"]
        src[""] = "\n".join(ls) + f"    d4.Setting = {f}(d3.Setting)\n    d4.Mode = {f}(7)\n"
    return src


def render(case, drop_unused=False):
    """-> (multi-module sources dict, merged single source)"""
    mods = case["mods"]
    multi = {}
    merged = [HEADER.rstrip("\n")]
    refs_multi, refs_merged = {}, {}
    for k, m in enumerate(mods):
        text = m["text"]
        if drop_unused and m["unused"]:
            text = text[: text.index("def {P}" + m["unused"])].rstrip("\n")
        t_multi = HEADER + text.replace("{P}", "") + "\n" + ((m["mainblock"] + "\n") if m["mainblock"] else "")
        multi[m["name"]] = t_multi
        prefix = f"zq{k}{m['name']}z_"
        merged.append(text.replace("{P}", prefix))
        refs_multi[f"R{k}"] = (m["alias"] or m["name"]) + "."
        refs_merged[f"R{k}"] = prefix
    body_multi = case["body"]
    body_merged = case["body"]
    for k in refs_multi:
        body_multi = body_multi.replace("{" + k + "}", refs_multi[k])
        body_merged = body_merged.replace("{" + k + "}", refs_merged[k])
    multi[""] = HEADER + "\n".join(case["imports"]) + "\n" + body_multi + "\n"
    merged.append(body_merged)
    if case.get("key_order"):
        multi = {k: multi[k] for k in case["key_order"]}
    return multi, "\n".join(merged) + "\n"


def check_case(case):
    multi, merged = render(case)
    lits = H.literals(merged)
    cnt = dict(pairs=0, successes=0, errors=0, asymmetric=0, vm_runs=0, same=0, truncated=0, effects_compared=0, calls_executed=0, ref_compared=0, unused_function_checked=0, mainblock_present=sum(1 for m in case["mods"] if m["mainblock"]), modules=len(case["mods"]), aliases=sum(1 for m in case["mods"] if m["alias"]), unmodelled=0, not_judged=0)
    vio = []
    fm_multi, fm_merged = funcs_of(multi), funcs_of(merged)
    trig = None
    nontrivial = False
    sample = None
    caps = dict(max_steps=30000, max_effects=80)
    mods_only = {k: v for k, v in multi.items() if k}
    for o in case["vectors"]:
        a = Compiled(multi, o, fm_multi)
        b = Compiled(merged, o, fm_merged)
        cnt["pairs"] += 1
        if not (a.ok and b.ok):
            cnt["errors"] += 1
            if a.ok != b.ok and not (H.is_timeout(a.result) or H.is_timeout(b.result)):
                cnt["asymmetric"] += 1
            continue
        cnt["successes"] += 1
        problems = []
        for es in case["env_seeds"]:
            va = H.run_vm(a.code, es, lits, funcs=a.funcs, prog=a.prog, soft=True, **caps)
            vb = H.run_vm(b.code, es, lits, funcs=b.funcs, prog=b.prog, soft=True, **caps)
            cnt["vm_runs"] += 2
            if "unmodelled" in (va["status"], vb["status"]):
                cnt["unmodelled"] += 1
                continue
            cnt["calls_executed"] += va["stat"].get("calls", 0)
            _mk = lambda perturb=False: H.run_ref(multi[""], es, lits, modules=mods_only, perturb=perturb, **caps)
            verdict, info, cond = H.compare_conditioned(va, vb, "multi", "merged", _mk, lambda: _mk(True))
            if cond:
                cnt["ill_conditioned"] = cnt.get("ill_conditioned", 0) + 1
            cnt["effects_compared"] += min(len(va["effects"]), len(vb["effects"]))
            if verdict == "same":
                cnt["same"] += 1
                if len(va["effects"]) >= 3:
                    nontrivial = True
            elif verdict == "truncated":
                cnt["truncated"] += 1
            else:
                ea, eb = first_event(va), first_event(vb)
                problems.append(dict(signature=dict(monitor="module-differential", event=info["kind"], machine_event_a=(ea or {}).get("event"), machine_event_b=(eb or {}).get("event")), detail=dict(info=info, env=es)))
                break
            # the multi-module rendering against the interpreter (so that a common-mode error is not invisible)
            ref = H.run_ref(multi[""], es, lits, modules=mods_only, **caps)
            if ref["status"] == "not-judged":
                cnt["not_judged"] += 1
            else:
                cnt["ref_compared"] += 1
                v2, i2, cond = H.compare_conditioned(va, ref, "vm", "ref", ref, lambda: _mk(True))
                if cond:
                    cnt["ill_conditioned"] = cnt.get("ill_conditioned", 0) + 1
                if v2 == "differ":
                    ea = first_event(va)
                    problems.append(dict(signature=dict(monitor="trace", event=i2["kind"], machine_event=(ea or {}).get("event")), detail=dict(info=i2, env=es)))
                    break
            if sample is None:
                sample = dict(options=a.key, modules=list(mods_only), trace_head=va["effects"][:4], main=multi[""][:300])
        # an effect of a library's __main__ block would already differ from the merged rendering (which has none)
        if problems:
            if trig is None:
                trig = sorted(set(triggers_of(multi)) | set(triggers_of(merged)))
            for p in problems:
                p["triggers"] = trig
                p["detail"] = dict(p["detail"], options=a.key, multi_code=a.code[:1500], merged_code=b.code[:1500])
            vio += problems
            break
    # uncalled library functions contribute nothing
    if any(m["unused"] for m in case["mods"]) and not vio:
        o = case["vectors"][1]
        m2, _ = render(case, drop_unused=True)
        x, y = H.compile_src(multi, o), H.compile_src(m2, o)
        if isinstance(x, dict) and isinstance(y, dict) and isinstance(x.get("code"), str) and isinstance(y.get("code"), str):
            cnt["unused_function_checked"] += 1
            if x["code"] != y["code"]:
                vio.append(dict(signature=dict(monitor="unused-library-function", event="output-changes"), triggers=triggers_of(multi), detail=dict(with_unused=x["code"][:1200], without=y["code"][:1200], options=opts_key(o))))
    res = dict(verdict="violated" if vio else ("held" if cnt["successes"] else "skip"), counters=cnt, violations=vio, features=[case.get("stream", "?")])
    if nontrivial:
        res["key"] = sha([multi, merged])
    if sample:
        res["sample"] = sample
    return res


def run_case(task, i):
    c = gen_case(task, i)
    r = check_case(c)
    if r["violations"]:
        r["case"] = c
    elif i % 40:
        r.pop("sample", None)
    return r


def finish(agg, tier):
    c = agg["counters"]
    if c.get("same", 0) < 200 or c.get("calls_executed", 0) < 200:
        return dict(inconclusive=f"too little compared: {dict(c)}")
    return None
