"""C06 — calls return to their call site; arguments and results arrive intact (shadow call stack + echo traces)."""
from .. import gen_shapes, harness as H
from .. import pool, workload
from ..common import HEADER, rng, seed_env, sha
from ..triggers import triggers_of
from ._exec import CORNERS, judge_program

ID = "C06"
LEVEL = "exploration"
RULE = (
    "a case is a call-heavy source (echo programs whose functions write every parameter and whose callers write "
    "every result to distinct device cells; generated programs; corpus) compiled under the eight {inline, tail-call, "
    "push/pop} corners in both label modes and executed on the reference machine with the shadow call stack armed "
    "(return address, sp at return, arity-aware for push/pop); traces are also compared with the reference "
    "interpreter; recursion cases must be rejected; non-trivial = at least one non-inlined call executed and "
    "returned and >= 3 effects; distinct = sha1(source)"
)
ASSUMPTIONS = [
    "arity / returns-a-value of each callee are read from the source by the harness (ast), labels as the transpiler spells them",
    "the body of `for x in [..]` is a pseudo call: its frames may be abandoned by `break` and carry no obligation",
]
TRUSTED = ["vf/ic10_vm.py shadow stack", "vf/pyref.py for the echo traces"]


def plan(tier, seed):
    q = tier == "quick"
    tasks = pool.batches("echo", 550 if q else 9000, 10) + pool.batches("tail", 200 if q else 3000, 10) + pool.batches("gen", 250 if q else 4000, 10) + pool.batches("recursion", 60 if q else 400, 20) + pool.batches("corpus", len(workload.corpus()), 2)
    for hz in ("void_tail_value", "for_list_call", "for_list_nested", "terminating_main"):
        tasks += pool.batches(f"defect:{hz}", 30 if q else 300, 10)
    return dict(tasks=tasks, nworkers=14, time_cap=85 if q else 880)


def worker_init():
    H.repo()


def _vectors(r):
    vs = []
    for c in CORNERS:
        vs.append(dict(c, append_version=False, remove_labels=r.random() < 0.5, compact=r.random() < 0.3))
    return vs


REC = [
    "def f(a):\n    return f(a - 1)\ndb.Setting = f(3)\n",
    "def f(a):\n    if a > 0:\n        return f(a - 1)\n    return 0\ndb.Setting = f(d0.Setting)\ndb.Mode = f(2)\n",
    "def g(a):\n    return a\ndef f(a):\n    return g(a) + f(a)\nwhile True:\n    db.Setting = f(1)\n",
    "def f(a):\n    f(a)\nwhile True:\n    f(1)\n    f(2)\n",
]


def gen_case(task, i):
    st = task["stream"]
    r = rng(seed_env(), ID, st, i)
    from .. import gen_text

    rec = REC + [x for x in gen_text.RECURSION if x not in REC]
    if st == "echo":
        src = gen_shapes.echo_program(r)
    elif st == "tail":
        src = gen_shapes.tail_program(r)
    elif st.startswith("defect:void_tail_value"):
        src = gen_shapes.echo_program(r, dict(void_tail_value=True))
    elif st == "recursion":
        return dict(src=HEADER + rec[i % len(rec)], stream=st, expect="rejected", vectors=_vectors(r)[:: 2 if i % 2 else 1])
    elif st == "corpus":
        src = workload.corpus_case(i)["src"]
    else:
        src = workload.gen_program(ID, st, i)[0]["src"]
    return dict(src=src, vectors=_vectors(r), env_seeds=[f"{i}:0", f"{i}:1"], stream=st)


def check_case(case):
    if case.get("expect") == "rejected":
        vio = []
        n = 0
        for o in case["vectors"]:
            r = H.compile_src(case["src"], o)
            n += 1
            if isinstance(r, dict) and "code" in r:
                vio.append(dict(signature=dict(monitor="recursion", event="recursive-program-compiled"), triggers=["recursion"], detail=dict(options=o, code=str(r.get("code"))[:500])))
                break
        return dict(verdict="violated" if vio else "held", counters=dict(recursion_cases=1, recursion_compiles=n), violations=vio, features=["recursion"], key=sha(case["src"]))
    res = judge_program(case, "calls")
    c = res["counters"]
    if not (c.get("returns_checked", 0) >= 1):
        res.pop("key", None)
    return res


def run_case(task, i):
    c = gen_case(task, i)
    r = check_case(c)
    if r["violations"]:
        r["case"] = c
    elif i % 40:
        r.pop("sample", None)
    return r


def finish(agg, tier):
    c = agg["counters"]
    if c.get("returns_checked", 0) < 500 or c.get("calls_executed", 0) < 500:
        return dict(inconclusive=f"shadow stack saw too little: calls={c.get('calls_executed', 0)} returns={c.get('returns_checked', 0)}")
    per = {k[4:]: v for k, v in agg["features"].items() if k.startswith("vec:")}
    return dict(coverage=dict(successes_per_inline_tail_pushpop=per, max_dynamic_depth=max([int(k[6:]) for k in agg["features"] if k.startswith("depth:")] or [0])))
