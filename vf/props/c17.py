"""C17 — reported size statistics describe the emitted program (postcondition monitor: independent recount)."""
from .. import harness as H
from .. import pool, workload
from ..common import HEADER, OPTION_NAMES, opts_from_bits, opts_key, rng, seed_env, sha, suite_vectors
from ..triggers import triggers_of

ID = "C17"
LEVEL = "exploration"
RULE = (
    "each case is one source (generated program, corpus file, multi-module program, or a dedicated tiny/empty/"
    "single-line/comment-heavy program) compiled under 4-8 option vectors drawn from all 256; every successful "
    "result is recounted by the harness tokeniser (lines = '\\n'-separated, bytes = len with CRLF line ends, "
    "registers = distinct r0-r15 operand tokens); non-trivial = a successful result with >= 1 line; "
    "distinct = sha1(source, option vector)"
)
ASSUMPTIONS = [
    "num_bytes is judged as characters for ASCII outputs; for non-ASCII outputs either the character or the UTF-8 byte count is accepted",
    "programs that name physical registers (r0..r15, sp, ra) themselves are excluded from the num_registers comparison",
]
TRUSTED = ["vf/tok.py tokeniser"]


def plan(tier, seed):
    q = tier == "quick"
    tasks = pool.batches("gen", 1200 if q else 15000, 25) + pool.batches("tiny", 400 if q else 3000, 50) + pool.batches("corpus", len(workload.corpus()), 4) + pool.batches("modules", 150 if q else 2000, 25) + pool.batches("modscopes", 250 if q else 3000, 25)
    return dict(tasks=tasks, nworkers=14, time_cap=80 if q else 800)


def worker_init():
    H.repo()


TINY = [
    "",
    "pass\n",
    "x = 1\n",
    "db.Setting = 1\n",
    "yield_()\n",
    "while True:\n    pass\n",
    "while True:\n    yield_()\n",
    "def f():\n    pass\n",
    "def f():\n    db.Setting = 1\nf()\n",
    "def f(a):\n    db.Setting = a\nf(1)\nf(2)\n",
    "# only a comment\n",
    "db.Setting = HASH(\"A long name to make the first line long enough for the note\")\n",
    "s = Stack(d0)\ns[0] = 1\n",
    "a = d0.Setting\nb = d1.Setting\nc = d2.Setting\nd = d3.Setting\ndb.Setting = a + b + c + d\n",
    "db.Setting = STR(\"äö\")\n",
    "x = 1  # comment with \x0c form feed\ndb.Setting = x\n",
    "db.Setting = 1 # r1 r2 r3 in a comment\n",
]


def _vectors(r, k):
    vs = suite_vectors() + [opts_from_bits(0), opts_from_bits(255)]
    while len(vs) < k:
        vs.append(opts_from_bits(r.randrange(256)))
    r.shuffle(vs)
    return vs[:k]


def _modscopes(r):
    """Library modules whose registers belong to different kinds of scope: module-level variables, functions with
    and without parameters / locals of their own, a main script with or without variables."""
    mods = {}
    main = ["from stationeers_pytrapic.symbols import *"]
    loop = []
    for name in r.sample(["counter", "pump", "lights"], r.randint(1, 2)):
        L = ["from stationeers_pytrapic.symbols import *"]
        gs = [f"{g}" for g in r.sample(["count", "level", "state", "total"], r.randint(1, 4))]
        for g in gs:
            L.append(f"{g} = {r.choice([str(r.randint(0, 9)), f'd{r.randrange(6)}.Setting + 1'])}")
        for k in range(r.randint(1, 3)):
            g = r.choice(gs)
            par = r.random() < 0.3
            L.append(f"def f{k}({'p' if par else ''}):")
            L.append(f"    global {g}")
            if r.random() < 0.3:
                L.append(f"    t = d{r.randrange(6)}.Setting * 2")
                L.append(f"    {g} = {g} + t")
            else:
                L.append(f"    {g} += {'p' if par else r.randint(1, 5)}")
            if r.random() < 0.6:
                L.append(f"    d{r.randrange(6)}.Setting = {r.choice(gs)}")
            loop.append(f"    {name}.f{k}({r.randint(1, 9) if par else ''})")
        if r.random() < 0.5:
            loop.append(f"    db.Setting = {name}.{r.choice(gs)}")
        mods[name] = "\n".join(L) + "\n"
        main.append(f"from library import {name}")
    if r.random() < 0.4:
        main.append(f"x = d{r.randrange(6)}.Setting")
        loop.append("    d0.Setting = x")
    r.shuffle(loop)
    mods[""] = "\n".join(main + ["while True:", "    yield_()"] + loop) + "\n"
    return mods


def gen_case(task, i):
    st = task["stream"]
    r = rng(seed_env(), ID, st, i, "v")
    if st == "gen":
        c, _ = workload.gen_program(ID, st, i)
        return dict(src=c["src"], vectors=_vectors(r, 5), stream=st)
    if st == "corpus":
        c = workload.corpus_case(i)
        return dict(src=c["src"], vectors=_vectors(r, 8), stream=st)
    if st == "modules":
        from . import c13

        multi, _ = c13.render(c13.gen_case(dict(stream="split"), i))
        return dict(src=multi, vectors=_vectors(r, 4), stream=st)
    if st == "modscopes":
        return dict(src=_modscopes(r), vectors=_vectors(r, 4), stream=st)
    body = TINY[i % len(TINY)]
    if i >= len(TINY) and r.random() < 0.5:
        n = r.randrange(1, 20)
        body = "".join(f"d{r.randrange(6)}.Setting = {r.randrange(100)}\n" for _ in range(n))
    head = HEADER if r.random() < 0.8 else ""
    return dict(src=head + body, vectors=[opts_from_bits(r.randrange(256)) for _ in range(6)] + [opts_from_bits(0)], stream=st)


def check_case(case):
    src = case["src"]
    cnt = dict(compiles=0, successes=0, recounted=0, errors=0, empty_outputs=0, nonascii_outputs=0, reg_check_skipped=0, max_registers=0, with_version_note=0, with_comments=0)
    vio = []
    keys = []
    trig = None
    sample = None
    skip_regs = H.names_physical_registers(src)
    for o in case["vectors"]:
        cnt["compiles"] += 1
        r = H.compile_src(src, o)
        if not isinstance(r, dict) or "code" not in r:
            cnt["errors"] += 1
            continue
        cnt["successes"] += 1
        code = r["code"]
        if code == "":
            cnt["empty_outputs"] += 1
        if isinstance(code, str) and any(ord(ch) > 127 for ch in code):
            cnt["nonascii_outputs"] += 1
        if isinstance(code, str) and "# Generated by PyTrapIC" in code:
            cnt["with_version_note"] += 1
        if o.get("original_code_as_comment") or o.get("generated_comments"):
            cnt["with_comments"] += 1
        probs = H.recount(r)
        cnt["recounted"] += 1
        cnt["max_registers"] = max(cnt["max_registers"], r.get("num_registers") or 0) if isinstance(r.get("num_registers"), int) else cnt["max_registers"]
        for p in probs:
            if p["event"] == "num_registers" and skip_regs:
                cnt["reg_check_skipped"] += 1
                continue
            if trig is None:
                trig = triggers_of(src)
            t = list(trig)
            if code == "":
                t.append("empty_output")
            vio.append(dict(signature=dict(monitor="recount", event=p["event"], relation=("reported<recount" if isinstance(p.get("reported"), int) and p["reported"] < p["recount"] else "reported>recount")), triggers=t, detail=dict(problem=p, options=o, code=code[:400])))
        if isinstance(code, str) and code:
            keys.append(sha([src, opts_key(o)]))
            if sample is None:
                sample = dict(options=opts_key(o), reported=dict(num_lines=r.get("num_lines"), num_bytes=r.get("num_bytes"), num_registers=r.get("num_registers")), code_head=code[:160])
    mx = cnt.pop("max_registers")
    res = dict(verdict="violated" if vio else ("held" if cnt["successes"] else "skip"), counters=cnt, key=keys, violations=vio, features=[case.get("stream", "?")] + [f"regs:{mx}"])
    if sample:
        res["sample"] = sample
    return res


def run_case(task, i):
    c = gen_case(task, i)
    r = check_case(c)
    if r["violations"]:
        r["case"] = c
    elif i % 50:
        r.pop("sample", None)
    return r


def finish(agg, tier):
    c = agg["counters"]
    if c.get("recounted", 0) < 200:
        return dict(inconclusive=f"only {c.get('recounted', 0)} successful results were recounted")
    return None
