"""C03 — compile-time evaluation gives the same value the chip would compute (differential on the reference machine)."""
import itertools
import math

from .. import harness as H
from .. import pool
from ..common import HEADER, rng, seed_env, sha
from ..ic10_arith import close
from ..triggers import triggers_of

ID = "C03"
LEVEL = "exploration"
RULE = (
    "a case is a set of up to 6 expression trees over leaf values; it is compiled in 4-5 variants that differ only in "
    "how leaves reach the expression: literals (everything folds), loads from the chip's stack (nothing folds), a "
    "random mix, single-assignment variables, arguments of a function returning the expression (inlined / not); every "
    "variant writes expression k to the same device cell and all variants are executed on the reference machine: "
    "the written values must agree (exactly for integers up to 2^53, relative 1e-14 otherwise).  The operator x "
    "operand-class table (all binary operators of the folder x 10 x 10 operand classes inside the trusted domain, all "
    "unary operators, all foldable math functions) is enumerated completely; random trees of depth 1-4 add mixing. "
    "non-trivial = at least one variant's output contains no instruction for the expression (it was folded) and "
    "another computes it at run time; distinct = sha1(expressions, leaf values)"
)
ASSUMPTIONS = [
    "operands stay in the trusted arithmetic domain of DESIGN.md 2.2 (positive modulus, non-negative integers < 2^31 for bit operations, shift counts 0..20, trig away from poles, no rounding ties)",
    "the run-time side is the reference machine's model of the IC10 instruction; the check decides whether the folder's Python lambda agrees with that model",
]
TRUSTED = ["vf/ic10_vm.py", "vf/ic10_arith.py"]

CELLS = ["db.Setting", "db.Mode", "db.On", "db.Open", "db.Lock", "db.Activate"]
GEN = [0, 1, -1, 2, 3, 7, 0.5, 0.1, -2.5, 100, 2147483647, 4503599627370496]
NONZERO = [1, -1, 2, 3, 7, 0.5, 0.1, -2.5, 100, 8]
POSMOD = [1, 2, 3, 5, 2.5, 7, 0.5, 10, 100, 4]
INTS = [0, 1, 2, 3, 5, 6, 7, 12, 255, 1023, 65535, 2147483647]
SHIFT = [0, 1, 2, 3, 4, 8, 16, 20]
BOOLS = [0, 1]
POWB = [2, 3, 0.5, 1.5, 10, 1, 4, 7]
POWE = [0, 1, 2, 3, 0.5, -1, -2, 4]
BINOPS = {
    "+": (GEN, GEN),
    "-": (GEN, GEN),
    "*": (GEN, GEN),
    "/": (GEN, NONZERO),
    "%": (GEN, POSMOD),
    "**": (POWB, POWE),
    "and": (INTS, INTS),
    "or": (INTS, INTS),
    "^": (INTS, INTS),
    "&": (INTS, INTS),
    ">>": (INTS, SHIFT),
    "<<": (INTS[:9], SHIFT),
    "==": (GEN, GEN),
    "!=": (GEN, GEN),
    "<": (GEN, GEN),
    ">": (GEN, GEN),
    "<=": (GEN, GEN),
    ">=": (GEN, GEN),
}
UNOPS = {"-": GEN, "not ": GEN}
MATH1 = {"sin": [0, 0.5, 1, 2, -1.5, 3], "cos": [0, 0.5, 1, 2, -1.5, 3], "tan": [0, 0.5, 1, -1, 0.25], "asin": [0, 0.5, -0.5, 1, -1, 0.1], "acos": [0, 0.5, -0.5, 1, -1, 0.1], "atan": [0, 1, -1, 10, 0.5, -100], "sqrt": [0, 1, 2, 4, 0.25, 100, 2147483647], "log": [1, 2, 0.5, 10, 100, 2.718281828459045], "exp": [0, 1, -1, 0.5, 2, 5, -10]}
MATH2 = {"atan2": ([0, 1, -1, 2, 0.5], [1, -1, 2, 0.5, 3])}
NAMED = ["pi", "tau", "rgas"]
HASHES = ['HASH("O2")', 'HASH("StructureFurnace")', 'HASH("Some Name")', 'STR("ab")', 'STR("Day")']


def table():
    """complete operator x operand table: list of (template, leaf values)"""
    rows = []
    for op, (A, B) in BINOPS.items():
        for a in A[:10]:
            for b in B[:10]:
                rows.append((f"({{0}} {op} {{1}})", [a, b]))
    # tiny / huge magnitudes: the folded literal has its own formatting branch for |v| < 0.1
    for a in (1e-16, 2.5e-30, 1.380649e-23, 3e-300, 1e300):
        for b in (1e-16, 3, 7e-9, 1e-300):
            rows.append(("({0} * {1})", [a, b]))
            rows.append(("({0} / {1})", [a, b]))
    for op, A in UNOPS.items():
        for a in A:
            rows.append((f"({op}{{0}})", [a]))
    for f, A in MATH1.items():
        for a in A:
            rows.append((f"{f}({{0}})", [a]))
    for f, (A, B) in MATH2.items():
        for a in A:
            for b in B:
                rows.append((f"{f}({{0}}, {{1}})", [a, b]))
    for n in NAMED:
        for b in (1, 2, 0.5):
            rows.append((f"({n} * {{0}})", [b]))
    for h in HASHES:
        for b in (0, 1, 3):
            rows.append((f"({h} + {{0}})", [b]))
            rows.append((f"({h} % {{0}})", [b + 7]))
    for n in (1, 2, 3, 4, 5):
        vals = [10 + k * 3 for k in range(n)]
        for idx in range(n):
            # list elements must stay literal (the dialect only has constant lists); the index is the leaf
            rows.append(("[" + ", ".join(str(v) for v in vals) + "][{0}]", [idx]))
    return rows


_TABLE = None


def _table():
    global _TABLE
    if _TABLE is None:
        _TABLE = table()
    return _TABLE


def plan(tier, seed):
    q = tier == "quick"
    nt = (len(_table()) + 5) // 6
    tasks = pool.batches("table", nt, 10) + pool.batches("trees", 900 if q else 15000, 10)
    tasks += pool.batches("defect:const_index_ge6", 10 if q else 60, 10)
    return dict(tasks=tasks, nworkers=14, time_cap=85 if q else 850)


def worker_init():
    H.repo()


def _tree(r, depth, leaves):
    """random expression template with numbered leaves, values appended to `leaves`, inside the trusted domain"""
    def leaf(pool_):
        leaves.append(r.choice(pool_))
        return "{" + str(len(leaves) - 1) + "}"

    def rec(d, want="gen"):
        if d <= 0 or r.random() < 0.25:
            return leaf({"gen": GEN[:10], "int": INTS[:8], "bool": BOOLS, "small": [0, 1, 2, 3]}[want])
        k = r.random()
        if want == "int":
            op = r.choice(["^", "&", "and", "or"])
            return f"({rec(d - 1, 'int')} {op} {rec(d - 1, 'int')})"
        if want == "bool":
            op = r.choice(["==", "!=", "<", ">", "<=", ">="])
            return f"({rec(d - 1)} {op} {rec(d - 1)})"
        if k < 0.45:
            op = r.choice(["+", "-", "*"])
            return f"({rec(d - 1)} {op} {rec(d - 1)})"
        if k < 0.55:
            return f"({rec(d - 1)} / {leaf(NONZERO)})"
        if k < 0.62:
            return f"({rec(d - 1)} % {leaf(POSMOD)})"
        if k < 0.7:
            return f"({rec(d - 1, 'bool')} * {rec(d - 1)})"
        if k < 0.76:
            return f"(-{rec(d - 1)})"
        if k < 0.82:
            return f"(not {rec(d - 1, 'bool')})"
        if k < 0.88:
            return f"({rec(d - 1, 'int')} + {rec(d - 1)})"
        if k < 0.93:
            return f"atan({rec(d - 1)})"
        return f"({r.choice(NAMED)} * {rec(d - 1)})"

    return rec(depth)


def gen_case(task, i):
    st = task["stream"]
    r = rng(seed_env(), ID, st, i)
    exprs = []
    if st == "table":
        exprs = [dict(t=t, v=v) for t, v in _table()[i * 6 : i * 6 + 6]]
    elif st.startswith("defect:"):
        vals = [10 + k for k in range(7)]
        exprs = [dict(t="[" + ", ".join(str(v) for v in vals) + "][{0}]", v=[idx]) for idx in (0, 1, 4)]
    else:
        for _ in range(r.randint(2, 5)):
            lv = []
            t = _tree(r, r.randint(1, 4), lv)
            exprs.append(dict(t=t, v=lv))
    return dict(exprs=exprs, stream=st, mixseed=i)


def _lit(v):
    if isinstance(v, float) and v == int(v) and abs(v) < 1e15:
        v = int(v)
    s = repr(v)
    return f"({s})" if s.startswith("-") else s


def render(exprs, mode, r=None):
    """-> source for one variant"""
    pre = []
    body = []
    slot = 100
    fdefs = []
    for k, e in enumerate(exprs):
        n = len(e["v"])
        if mode == "literal":
            args = [_lit(x) for x in e["v"]]
        elif mode in ("stack", "mixed"):
            args = []
            for x in e["v"]:
                if mode == "mixed" and r.random() < 0.5:
                    args.append(_lit(x))
                else:
                    pre.append(f"stack[{slot}] = {_lit(x)}")
                    args.append(f"stack[{slot}]")
                    slot += 1
        elif mode == "vars":
            args = []
            for j, x in enumerate(e["v"]):
                nm = f"K{k}_{j}"
                pre.append(f"{nm} = {_lit(x)}")
                args.append(nm)
        elif mode in ("func", "func_noinline"):
            ps = [f"a{j}" for j in range(n)]
            fdefs.append(f"def fx{k}({', '.join(ps)}):\n    return {e['t'].format(*ps)}")
            body.append(f"{CELLS[k % len(CELLS)]} = fx{k}({', '.join(_lit(x) for x in e['v'])})")
            continue
        body.append(f"{CELLS[k % len(CELLS)]} = {e['t'].format(*args)}")
    return HEADER + "\n".join(fdefs + pre + body) + "\n"


def written(code, prog=None):
    # soft: a terminating main with a non-inlined function runs on into it (known finding of C07); the first write
    # to each cell has happened before that
    vm = H.run_vm(code, "c03", (), max_steps=5000, max_effects=40, soft=True)
    if vm["status"] in ("unmodelled",):
        return None, vm
    vals = {}
    for e in vm["effects"]:
        if e[0] == "s" and e[1] == "db":
            vals.setdefault(e[2], e[3])
    return vals, vm


def check_case(case):
    exprs = case["exprs"]
    r = rng("c03mix", case.get("mixseed", 0))
    cnt = dict(variants_compiled=0, variants_run=0, errors=0, unmodelled=0, expressions=len(exprs), values_compared=0, folded_vs_runtime=0)
    vio = []
    variants = [("literal", dict(append_version=False)), ("stack", dict(append_version=False)), ("mixed", dict(append_version=False)), ("vars", dict(append_version=False)), ("func", dict(append_version=False)), ("func_noinline", dict(append_version=False, inline_functions=False))]
    results = {}
    srcs = {}
    codes = {}
    for mode, o in variants:
        src = render(exprs, mode, r)
        srcs[mode] = src
        res = H.compile_src(src, o)
        cnt["variants_compiled"] += 1
        if not (isinstance(res, dict) and isinstance(res.get("code"), str)):
            cnt["errors"] += 1
            continue
        codes[mode] = res["code"]
        vals, vm = written(res["code"])
        if vals is None:
            cnt["unmodelled"] += 1
            continue
        cnt["variants_run"] += 1
        results[mode] = vals
    nontrivial = False
    # independent line: the harness's own interpreter evaluates the literal rendering (its own pi/tau/rgas, CRC-32,
    # STR packing, arithmetic kernel) - catches a wrong named constant or hash that all variants would share
    if "literal" in srcs:
        ref = H.run_ref(srcs["literal"], "c03", (), max_steps=5000, max_effects=40)
        if ref["status"] != "not-judged":
            vals = {}
            for e in ref["effects"]:
                if e[0] == "s" and e[1] == "db":
                    vals.setdefault(e[2], e[3])
            results["interpreter"] = vals
            codes["interpreter"] = "(reference interpreter on the literal rendering)"
            srcs["interpreter"] = srcs["literal"]
            cnt["interpreter_runs"] = 1
    if "stack" in results:
        ref = results["stack"]
        for mode, vals in results.items():
            if mode == "stack":
                continue
            for cell, v in vals.items():
                if cell not in ref:
                    continue
                cnt["values_compared"] += 1
                w = ref[cell]
                exact = isinstance(w, float) and w == w and abs(w) != math.inf and w == int(w) and abs(w) <= 2**53
                # single operations (table) are compared tightly; in random trees a 16-digit literal feeding a
                # cancelling operation (mod, subtraction) legitimately amplifies the printing error
                ok = (v == w) if exact else close(v, w, 1e-14 if case.get("stream") == "table" else 1e-9)
                if mode == "literal":
                    cnt["folded_vs_runtime"] += 1
                    nontrivial = True
                if not ok:
                    k = next((j for j, c in enumerate(CELLS) if _cellkey(c) == cell), None)
                    ex = exprs[k] if k is not None and k < len(exprs) else None
                    vio.append(dict(signature=dict(monitor="fold-differential", event="value-differs", variant=mode), triggers=triggers_of(srcs[mode]) + triggers_of(srcs["stack"]), detail=dict(expression=ex, value_in_variant=v, value_at_run_time=w, variant_code=codes[mode][:600], stack_code=codes["stack"][:800])))
            missing = set(ref) - set(vals)
            if missing and mode in ("literal", "vars", "mixed", "interpreter"):
                vio.append(dict(signature=dict(monitor="fold-differential", event="write-missing", variant=mode), triggers=triggers_of(srcs[mode]), detail=dict(cells=sorted(missing), variant_code=codes[mode][:600])))
    res = dict(verdict="violated" if vio else ("held" if len(results) >= 2 else "skip"), counters=cnt, violations=vio, features=[case.get("stream", "?")])
    if nontrivial:
        res["key"] = sha(exprs)
    if exprs:
        res["sample"] = dict(expression=exprs[0], literal_variant=srcs.get("literal", "")[len(HEADER) :][:200], runtime_value=(results.get("stack") or {}))
    return res


_LT = None


def _cellkey(c):
    global _LT
    if _LT is None:
        from .. import enums as E

        _LT = dict(E.positional("T", "pinned"))
    return _LT.get(c.split(".")[1])


def run_case(task, i):
    c = gen_case(task, i)
    r = check_case(c)
    if r["violations"]:
        r["case"] = c
    elif i % 50:
        r.pop("sample", None)
    return r


def finish(agg, tier):
    c = agg["counters"]
    if c.get("folded_vs_runtime", 0) < 1000:
        return dict(inconclusive=f"too few folded-vs-runtime comparisons: {dict(c)}")
    return dict(coverage=dict(table_rows=len(_table()), exhaustive_table=True))
