"""C03 — compile-time evaluation gives the same value the chip would compute (differential on the reference machine)."""
import itertools
import math

from .. import harness as H
from .. import pool
from ..common import HEADER, rng, seed_env, sha
from ..ic10_arith import close
from ..triggers import triggers_of

ID = "C03"
LEVEL = "exploration"
RULE = (
    "a case is a set of up to 6 expression trees over leaf values; it is compiled in 4-5 variants that differ only in "
    "how leaves reach the expression: literals (everything folds), loads from the chip's stack (nothing folds), a "
    "random mix, single-assignment variables, arguments of a function returning the expression (inlined / not); every "
    "variant writes expression k to the same device cell and all variants are executed on the reference machine: "
    "the written values must agree (exactly for integers up to 2^53, relative 1e-14 otherwise).  The operator x "
    "operand-class table (all binary operators of the folder x 10 x 10 operand classes inside the trusted domain, all "
    "unary operators, all foldable math functions) is enumerated completely; random trees of depth 1-4 add mixing. "
    "non-trivial = at least one variant's output contains no instruction for the expression (it was folded) and "
    "another computes it at run time; distinct = sha1(expressions, leaf values)"
)
ASSUMPTIONS = [
    "operands stay in the trusted arithmetic domain of DESIGN.md 2.2 (positive modulus, non-negative integers < 2^31 for bit operations, shift counts 0..20, trig away from poles, no rounding ties)",
    "the run-time side is the reference machine's model of the IC10 instruction; the check decides whether the folder's Python lambda agrees with that model",
]
TRUSTED = ["vf/ic10_vm.py", "vf/ic10_arith.py"]

CELLS = ["db.Setting", "db.Mode", "db.On", "db.Open", "db.Lock", "db.Activate"]
GEN = [0, 1, -1, 2, 3, 7, 0.5, 0.1, -2.5, 100, 2147483647, 4503599627370496]
NONZERO = [1, -1, 2, 3, 7, 0.5, 0.1, -2.5, 100, 8]
POSMOD = [1, 2, 3, 5, 2.5, 7, 0.5, 10, 100, 4]
INTS = [0, 1, 2, 3, 5, 6, 7, 12, 255, 1023, 65535, 2147483647]
SHIFT = [0, 1, 2, 3, 4, 8, 16, 20]
BOOLS = [0, 1]
POWB = [2, 3, 0.5, 1.5, 10, 1, 4, 7]
POWE = [0, 1, 2, 3, 0.5, -1, -2, 4]
BINOPS = {
    "+": (GEN, GEN),
    "-": (GEN, GEN),
    "*": (GEN, GEN),
    "/": (GEN, NONZERO),
    "%": (GEN, POSMOD),
    "**": (POWB, POWE),
    "and": (INTS, INTS),
    "or": (INTS, INTS),
    "^": (INTS, INTS),
    "&": (INTS, INTS),
    ">>": (INTS, SHIFT),
    "<<": (INTS[:9], SHIFT),
    "==": (GEN, GEN),
    "!=": (GEN, GEN),
    "<": (GEN, GEN),
    ">": (GEN, GEN),
    "<=": (GEN, GEN),
    ">=": (GEN, GEN),
}
UNOPS = {"-": GEN, "not ": GEN}
MATH1 = {"sin": [0, 0.5, 1, 2, -1.5, 3], "cos": [0, 0.5, 1, 2, -1.5, 3], "tan": [0, 0.5, 1, -1, 0.25], "asin": [0, 0.5, -0.5, 1, -1, 0.1], "acos": [0, 0.5, -0.5, 1, -1, 0.1], "atan": [0, 1, -1, 10, 0.5, -100], "sqrt": [0, 1, 2, 4, 0.25, 100, 2147483647], "log": [1, 2, 0.5, 10, 100, 2.718281828459045], "exp": [0, 1, -1, 0.5, 2, 5, -10]}
MATH2 = {"atan2": ([0, 1, -1, 2, 0.5], [1, -1, 2, 0.5, 3])}
NAMED = ["pi", "tau", "rgas"]
HASHES = ['HASH("O2")', 'HASH("StructureFurnace")', 'HASH("Some Name")', 'STR("ab")', 'STR("Day")']


def table():
    """complete operator x operand table: list of (template, leaf values)"""
    rows = []
    for op, (A, B) in BINOPS.items():
        for a in A[:10]:
            for b in B[:10]:
                rows.append((f"({{0}} {op} {{1}})", [a, b]))
    # tiny / huge magnitudes: the folded literal has its own formatting branch for |v| < 0.1
    for a in (1e-16, 2.5e-30, 1.380649e-23, 3e-300, 1e300):
        for b in (1e-16, 3, 7e-9, 1e-300):
            rows.append(("({0} * {1})", [a, b]))
            rows.append(("({0} / {1})", [a, b]))
    # large values with a fractional part, values a hair away from an integer, half-way cases: a printer or an
    # operand normaliser that snaps "almost integral" floats must not touch them
    for a, b in ((4000000002, 4), (2000000000.25, 3), (1e14 + 0.5, 1), (123456789.000001, 1), (3000000001, 2), (0.1, 3), (1e9 + 1e-6, 1), (2**53 - 1, 2)):
        rows.append(("({0} / {1})", [a, b]))
        rows.append(("({0} * {1})", [a, b]))
        rows.append(("({0} + {1})", [a, b / 4]))
    for op, A in UNOPS.items():
        for a in A:
            rows.append((f"({op}{{0}})", [a]))
    for f, A in MATH1.items():
        for a in A:
            rows.append((f"{f}({{0}})", [a]))
    for f, (A, B) in MATH2.items():
        for a in A:
            for b in B:
                rows.append((f"{f}({{0}}, {{1}})", [a, b]))
    for n in NAMED:
        for b in (1, 2, 0.5):
            rows.append((f"({n} * {{0}})", [b]))
    for h in HASHES:
        for b in (0, 1, 3):
            rows.append((f"({h} + {{0}})", [b]))
            rows.append((f"({h} % {{0}})", [b + 7]))
    for n in (1, 2, 3, 4, 5):
        vals = [10 + k * 3 for k in range(n)]
        for idx in range(n):
            # list elements must stay literal (the dialect only has constant lists); the index is the leaf
            rows.append(("[" + ", ".join(str(v) for v in vals) + "][{0}]", [idx]))
    return rows


_TABLE = None


def _table():
    global _TABLE
    if _TABLE is None:
        _TABLE = table()
    return _TABLE


def plan(tier, seed):
    q = tier == "quick"
    nt = (len(_table()) + 5) // 6
    tasks = pool.batches("table", nt, 10) + pool.batches("trees", 900 if q else 15000, 10)
    tasks += pool.batches("defect:const_index_ge6", 10 if q else 60, 10)
    tasks += pool.batches("flow", 400 if q else 6000, 10)
    tasks += pool.batches("listvar", 60 if q else 600, 10)
    return dict(tasks=tasks, nworkers=14, time_cap=85 if q else 850)


def worker_init():
    H.repo()


def _tree(r, depth, leaves):
    """random expression template with numbered leaves, values appended to `leaves`, inside the trusted domain"""
    def leaf(pool_):
        leaves.append(r.choice(pool_))
        return "{" + str(len(leaves) - 1) + "}"

    def rec(d, want="gen"):
        if d <= 0 or r.random() < 0.25:
            return leaf({"gen": GEN[:10], "int": INTS[:8], "bool": BOOLS, "small": [0, 1, 2, 3]}[want])
        k = r.random()
        if want == "int":
            op = r.choice(["^", "&", "and", "or"])
            return f"({rec(d - 1, 'int')} {op} {rec(d - 1, 'int')})"
        if want == "bool":
            op = r.choice(["==", "!=", "<", ">", "<=", ">="])
            return f"({rec(d - 1)} {op} {rec(d - 1)})"
        if k < 0.45:
            op = r.choice(["+", "-", "*"])
            return f"({rec(d - 1)} {op} {rec(d - 1)})"
        if k < 0.55:
            return f"({rec(d - 1)} / {leaf(NONZERO)})"
        if k < 0.62:
            return f"({rec(d - 1)} % {leaf(POSMOD)})"
        if k < 0.7:
            return f"({rec(d - 1, 'bool')} * {rec(d - 1)})"
        if k < 0.76:
            return f"(-{rec(d - 1)})"
        if k < 0.82:
            return f"(not {rec(d - 1, 'bool')})"
        if k < 0.88:
            return f"({rec(d - 1, 'int')} + {rec(d - 1)})"
        if k < 0.93:
            return f"atan({rec(d - 1)})"
        return f"({r.choice(NAMED)} * {rec(d - 1)})"

    return rec(depth)


# ------------------------------------------------------------------ constants that flow through statements
_FCELL = ["d0.Setting", "d1.Setting", "d2.Setting", "d3.Setting", "d4.Setting", "d5.Setting", "d0.Mode", "d1.Mode", "d2.Mode", "d3.Mode", "d0.On", "d1.On", "d2.Open", "d3.Lock"]
_FDYN = ["d0.Temperature", "d1.Pressure", "d2.Ratio", "d3.Power", "d4.Charge", "d5.Idle"]
_FCONST = [0, 1, 2, 3, 5, 10, -3, 2.5, 100, 0.5, -1, 7]


def flow_program(r):
    """-> template with {K0}.. markers (each stands for one constant: a literal in the folded variant, a stack cell
    in the run-time variant) and the list of constants.  Shapes: constant tests of if / if not / elif / while /
    conditional expressions, named constants, variables and parameters assigned a constant once (or once more),
    range() bounds, globals modified by a function."""
    ks = []

    def K(v=None):
        ks.append(r.choice(_FCONST) if v is None else v)
        return "{K" + str(len(ks) - 1) + "}"

    cells = list(_FCELL)
    r.shuffle(cells)
    ci = [0]

    def cell():
        ci[0] += 1
        return cells[ci[0] % len(cells)]

    defs, top, loop = [], [], []
    names = []
    for j in range(r.randint(1, 3)):
        nm = f"K{j}" if r.random() < 0.7 else r.choice(["LIMIT", "DEBUG", "OFFSET", "ENABLED"]) + str(j)
        top.append(f"{nm} = {K()}")
        names.append(nm)
    cmpop = lambda: r.choice(["<", ">", "<=", ">=", "==", "!="])
    for _ in range(r.randint(3, 6)):
        k = r.randrange(12)
        nm = r.choice(names)
        if k == 0:
            t = r.choice([f"{nm}", f"not {nm}", f"{nm} {cmpop()} {K()}", f"not {nm} {cmpop()} {K()}", f"not ({nm} {cmpop()} {K()})", f"{nm} and {r.choice(names)}", f"not {nm} or {r.choice(_FDYN)} > 3"])
            loop += [f"if {t}:", f"    {cell()} = {r.randint(10, 99)}"]
            if r.random() < 0.7:
                if r.random() < 0.4:
                    loop += [f"elif {r.choice(names)} {cmpop()} {K()}:", f"    {cell()} = {r.randint(10, 99)}"]
                loop += ["else:", f"    {cell()} = {r.randint(100, 199)}"]
        elif k == 1:
            f = f"clamp{len(defs)}"
            body = [f"def {f}(n):", f"    if n {cmpop()} {nm}:", f"        n = {r.choice([nm, K(), nm + ' + 1'])}"]
            if r.random() < 0.3:
                body.insert(1, f"    {cell()} = n")
            body.append(f"    {cell()} = n")
            defs.append(body)
            for _ in range(r.randint(1, 3)):
                loop.append(f"{f}({r.choice(_FDYN + [K(), K()])})")
        elif k == 2:
            v = f"v{len(loop)}"
            loop += [f"{v} = {nm}", f"{cell()} = {v} + {r.choice(_FDYN)}"]
            if r.random() < 0.5:
                loop += [f"if {r.choice(_FDYN)} > {K()}:", f"    {v} = {K()}", f"{cell()} = {v}"]
        elif k == 3:
            loop += [f"for i{len(loop)} in range({K(r.choice([0, 1, 2, 3]))}):", f"    {cell()} = i{len(loop)} + {nm}"]
        elif k == 4:
            w = f"w{len(loop)}"
            loop += [f"{w} = {K(r.choice([0, 1, -1]))}", f"while {w} < {K(r.choice([0, 1, 2, 3]))}:", f"    {w} += 1", f"    {cell()} = {w}"]
        elif k == 5:
            loop.append(f"{cell()} = ({r.randint(10, 99)} if {r.choice(['', 'not '])}{nm} else {r.choice(_FDYN)})")
        elif k == 6:
            f = f"g{len(defs)}"
            defs.append([f"def {f}(a, b):", f"    b = {K()}", f"    {cell()} = a + b", f"    return a * {nm}"])
            loop.append(f"{cell()} = {f}({r.choice(_FDYN)}, {K()})")
        elif k == 7:
            g = f"G{len(top)}"
            top.append(f"{g} = {K()}")
            f = f"bump{len(defs)}"
            defs.append([f"def {f}():", f"    global {g}", f"    {g} = {g} + {K(r.choice([1, 2]))}"])
            loop += [f"{cell()} = {g}", f"{f}()", f"{cell()} = {g} * 2"]
        elif k == 8:
            loop += [f"if {nm} {cmpop()} {K()}:", f"    if not {r.choice(names)}:", f"        {cell()} = {r.randint(10, 99)}", "    else:", f"        {cell()} = {r.randint(100, 199)}"]
        elif k == 9:
            y = f"y{len(loop)}"
            loop += [f"{y} = {K()}", f"{cell()} = {y}", f"{y} += {r.choice(_FDYN)}", f"{cell()} = {y}"]
        elif k == 10:
            loop.append(f"{cell()} = {r.choice(['min', 'max'])}({nm}, {r.choice(_FDYN)}) + ({nm} % {K(r.choice([2, 3, 5, 360]))})")
        else:
            loop.append(f"{cell()} = {nm} {r.choice(['+', '-', '*', '%', '//'][:4])} {K(r.choice([2, 3, 5, 360, 7]))}")
    L = [l for d in defs for l in d] + top + ["while True:", "    yield_()"] + ["    " + l for l in loop]
    return "\n".join(L) + "\n", ks


def render_flow(tmpl, ks, mode):
    pre = []
    sub = {}
    for j, v in enumerate(ks):
        if mode == "literal":
            sub[f"K{j}"] = _lit(v)
        else:
            pre.append(f"stack[{100 + j}] = {_lit(v)}")
            sub[f"K{j}"] = f"stack[{100 + j}]"
    return HEADER + "\n".join(pre) + ("\n" if pre else "") + tmpl.format(**sub)


def check_flow(case):
    tmpl, ks = case["template"], case["constants"]
    cnt = dict(flow_programs=1, variants_compiled=0, variants_run=0, errors=0, unmodelled=0, flow_traces_compared=0, flow_effects_compared=0, folded_vs_runtime=0, ill_conditioned=0)
    vio = []
    lit, stk = render_flow(tmpl, ks, "literal"), render_flow(tmpl, ks, "stack")
    lits = H.literals(lit)
    nontrivial = False
    for o in case["vectors"]:
        a, b = H.compile_src(lit, o), H.compile_src(stk, o)
        cnt["variants_compiled"] += 2
        if not (isinstance(a, dict) and isinstance(a.get("code"), str) and isinstance(b, dict) and isinstance(b.get("code"), str)):
            cnt["errors"] += 1
            continue
        for es in case["env_seeds"]:
            va = H.run_vm(a["code"], es, lits, soft=True, max_steps=20000, max_effects=80)
            vb = H.run_vm(b["code"], es, lits, soft=True, max_steps=20000, max_effects=80)
            if "unmodelled" in (va["status"], vb["status"]):
                cnt["unmodelled"] += 1
                continue
            cnt["variants_run"] += 2
            mk = lambda perturb=False: H.run_ref(lit, es, lits, perturb=perturb, max_steps=20000, max_effects=80)
            verdict, info, cond = H.compare_conditioned(va, vb, "folded", "runtime", mk, lambda: mk(True))
            cnt["ill_conditioned"] += int(cond)
            cnt["flow_traces_compared"] += 1
            cnt["flow_effects_compared"] += min(len(va["effects"]), len(vb["effects"]))
            if verdict == "same" and len(va["effects"]) >= 3:
                nontrivial = True
                cnt["folded_vs_runtime"] += 1
            if verdict == "differ":
                ea, eb = (va["events"] or [None])[0], (vb["events"] or [None])[0]
                vio.append(dict(signature=dict(monitor="fold-differential", event="trace-differs:" + info["kind"], variant="flow", machine_event_a=(ea or {}).get("event"), machine_event_b=(eb or {}).get("event")), triggers=sorted(set(triggers_of(lit)) | set(triggers_of(stk))), detail=dict(info=info, env=es, options=o, folded_source=lit[len(HEADER) :][:900], folded_code=a["code"][:900], runtime_code=b["code"][:900])))
                break
        if vio:
            break
    res = dict(verdict="violated" if vio else ("held" if cnt["variants_run"] else "skip"), counters=cnt, violations=vio, features=["flow"])
    if nontrivial:
        res["key"] = sha([tmpl, ks])
    res["sample"] = dict(folded_variant=lit[len(HEADER) :][:300], constants=ks)
    return res


def check_listvar(case):
    """A constant list held in a variable (or returned by nothing else than a literal), read with a run-time index
    and iterated with for, in either order, possibly twice: every for loop must visit exactly the elements of the
    list, in order - whatever the lookup code does with its private copy of the list."""
    vals, order = case["values"], case["order"]
    L = [f"T = [{', '.join(_lit(v) for v in vals)}]"]
    want = []
    for k, what in enumerate(order):
        if what == "index":
            L.append(f"d{k % 6}.Mode = T[d{(k + 1) % 6}.Idle % {len(vals)}]")
        else:
            L += ["for v in T:", "    db.Setting = v"]
            want += [float(v) for v in vals]
    src = HEADER + "\n".join(L) + "\ndb.Lock = 1\n"
    cnt = dict(variants_compiled=0, variants_run=0, errors=0, unmodelled=0, list_loops_checked=0)
    vio = []
    for o in case["vectors"]:
        res = H.compile_src(src, o)
        cnt["variants_compiled"] += 1
        if not (isinstance(res, dict) and isinstance(res.get("code"), str)):
            cnt["errors"] += 1
            continue
        vm = H.run_vm(res["code"], "c03l", (), max_steps=5000, max_effects=80, soft=True)
        if vm["status"] == "unmodelled":
            cnt["unmodelled"] += 1
            continue
        cnt["variants_run"] += 1
        got = []
        for e in vm["effects"]:
            if e[0] == "s" and e[1] == "db" and e[2] == _cellkey("db.Lock"):
                break
            if e[0] == "s" and e[1] == "db" and e[2] == _cellkey("db.Setting"):
                got.append(e[3])
        cnt["list_loops_checked"] += order.count("for")
        if got != want:
            vio.append(dict(signature=dict(monitor="list-iteration", event="for-over-constant-list-visits-other-elements"), triggers=[], detail=dict(expected=want, visited=got, source=src[len(HEADER) :], options=o, code=res["code"][:1200])))
            break
    res = dict(verdict="violated" if vio else ("held" if cnt["variants_run"] else "skip"), counters=cnt, violations=vio, features=["listvar"], sample=dict(source=src[len(HEADER) :][:300]))
    if cnt["variants_run"]:
        res["key"] = sha([vals, order])
    return res


def gen_case(task, i):
    st = task["stream"]
    r = rng(seed_env(), ID, st, i)
    if st == "listvar":
        n = r.choice([1, 2, 3, 5, 6, 7, 7, 8, 9, 11])
        vals = [r.choice([10 * (k + 1), k + 1, 2.5 * (k + 1), -(k + 1)]) for k in range(n)]
        order = r.choice([["index", "for"], ["for", "index"], ["index", "for", "for"], ["for"], ["index", "index", "for"], ["for", "index", "for"]])
        vs = [dict(append_version=False), dict(append_version=False, compact=True, remove_labels=True), dict(append_version=False, inline_functions=False)]
        return dict(values=vals, order=order, vectors=vs, stream=st)
    if st == "flow":
        tmpl, ks = flow_program(r)
        vs = [dict(append_version=False), dict(append_version=False, inline_functions=False), dict(append_version=False, compact=True, inline_functions=r.random() < 0.5, use_push_pop_functions=r.random() < 0.5)]
        return dict(template=tmpl, constants=ks, vectors=vs, env_seeds=[f"{i}:0", f"{i}:1"], stream=st)
    exprs = []
    if st == "table":
        exprs = [dict(t=t, v=v) for t, v in _table()[i * 6 : i * 6 + 6]]
    elif st.startswith("defect:"):
        vals = [10 + k for k in range(7)]
        exprs = [dict(t="[" + ", ".join(str(v) for v in vals) + "][{0}]", v=[idx]) for idx in (0, 1, 4)]
    else:
        for _ in range(r.randint(2, 5)):
            lv = []
            t = _tree(r, r.randint(1, 4), lv)
            exprs.append(dict(t=t, v=lv))
    return dict(exprs=exprs, stream=st, mixseed=i)


def _lit(v):
    if isinstance(v, float) and v == int(v) and abs(v) < 1e15:
        v = int(v)
    s = repr(v)
    return f"({s})" if s.startswith("-") else s


def render(exprs, mode, r=None):
    """-> source for one variant"""
    pre = []
    body = []
    slot = 100
    fdefs = []
    for k, e in enumerate(exprs):
        n = len(e["v"])
        if mode == "literal":
            args = [_lit(x) for x in e["v"]]
        elif mode in ("stack", "mixed"):
            args = []
            for x in e["v"]:
                if mode == "mixed" and r.random() < 0.5:
                    args.append(_lit(x))
                else:
                    pre.append(f"stack[{slot}] = {_lit(x)}")
                    args.append(f"stack[{slot}]")
                    slot += 1
        elif mode == "vars":
            args = []
            for j, x in enumerate(e["v"]):
                nm = f"K{k}_{j}"
                pre.append(f"{nm} = {_lit(x)}")
                args.append(nm)
        elif mode in ("func", "func_noinline"):
            ps = [f"a{j}" for j in range(n)]
            fdefs.append(f"def fx{k}({', '.join(ps)}):\n    return {e['t'].format(*ps)}")
            body.append(f"{CELLS[k % len(CELLS)]} = fx{k}({', '.join(_lit(x) for x in e['v'])})")
            continue
        body.append(f"{CELLS[k % len(CELLS)]} = {e['t'].format(*args)}")
    return HEADER + "\n".join(fdefs + pre + body) + "\n"


def written(code, prog=None):
    # soft: a terminating main with a non-inlined function runs on into it (known finding of C07); the first write
    # to each cell has happened before that
    vm = H.run_vm(code, "c03", (), max_steps=5000, max_effects=40, soft=True)
    if vm["status"] in ("unmodelled",):
        return None, vm
    vals = {}
    for e in vm["effects"]:
        if e[0] == "s" and e[1] == "db":
            vals.setdefault(e[2], e[3])
    return vals, vm


def check_case(case):
    if case.get("stream") == "flow":
        return check_flow(case)
    if case.get("stream") == "listvar":
        return check_listvar(case)
    exprs = case["exprs"]
    r = rng("c03mix", case.get("mixseed", 0))
    cnt = dict(variants_compiled=0, variants_run=0, errors=0, unmodelled=0, expressions=len(exprs), values_compared=0, folded_vs_runtime=0)
    vio = []
    variants = [("literal", dict(append_version=False)), ("literal_compact", dict(append_version=False, compact=True, remove_labels=True)), ("stack", dict(append_version=False)), ("mixed", dict(append_version=False)), ("vars", dict(append_version=False)), ("func", dict(append_version=False)), ("func_noinline", dict(append_version=False, inline_functions=False))]
    results = {}
    srcs = {}
    codes = {}
    for mode, o in variants:
        src = render(exprs, "literal" if mode == "literal_compact" else mode, r)
        srcs[mode] = src
        res = H.compile_src(src, o)
        cnt["variants_compiled"] += 1
        if not (isinstance(res, dict) and isinstance(res.get("code"), str)):
            cnt["errors"] += 1
            continue
        codes[mode] = res["code"]
        vals, vm = written(res["code"])
        if vals is None:
            cnt["unmodelled"] += 1
            continue
        cnt["variants_run"] += 1
        results[mode] = vals
    nontrivial = False
    # independent line: the harness's own interpreter evaluates the literal rendering (its own pi/tau/rgas, CRC-32,
    # STR packing, arithmetic kernel) - catches a wrong named constant or hash that all variants would share
    if "literal" in srcs:
        ref = H.run_ref(srcs["literal"], "c03", (), max_steps=5000, max_effects=40)
        if ref["status"] != "not-judged":
            vals = {}
            for e in ref["effects"]:
                if e[0] == "s" and e[1] == "db":
                    vals.setdefault(e[2], e[3])
            results["interpreter"] = vals
            codes["interpreter"] = "(reference interpreter on the literal rendering)"
            srcs["interpreter"] = srcs["literal"]
            cnt["interpreter_runs"] = 1
    if "stack" in results:
        ref = results["stack"]
        for mode, vals in results.items():
            if mode == "stack":
                continue
            for cell, v in vals.items():
                if cell not in ref:
                    continue
                cnt["values_compared"] += 1
                w = ref[cell]
                # an integral result must be met exactly when it comes from ONE operation (table); in a tree a folded
                # non-integral intermediate (100 / 3 -> 33.33333333333334, 16 digits as C09 allows) can leave 7e-15
                exact = case.get("stream") == "table" and isinstance(w, float) and w == w and abs(w) != math.inf and w == int(w) and abs(w) <= 2**53
                # single operations (table) are compared tightly; in random trees a 16-digit literal feeding a
                # cancelling operation (mod, subtraction) legitimately amplifies the printing error
                ok = (v == w) if exact else close(v, w, 1e-14 if case.get("stream") == "table" else 1e-9)
                if mode in ("literal", "literal_compact"):
                    cnt["folded_vs_runtime"] += 1
                    nontrivial = True
                if not ok:
                    k = next((j for j, c in enumerate(CELLS) if _cellkey(c) == cell), None)
                    ex = exprs[k] if k is not None and k < len(exprs) else None
                    vio.append(dict(signature=dict(monitor="fold-differential", event="value-differs", variant=mode), triggers=triggers_of(srcs[mode]) + triggers_of(srcs["stack"]), detail=dict(expression=ex, value_in_variant=v, value_at_run_time=w, variant_code=codes[mode][:600], stack_code=codes["stack"][:800])))
            missing = set(ref) - set(vals)
            if missing and mode in ("literal", "literal_compact", "vars", "mixed", "interpreter"):
                vio.append(dict(signature=dict(monitor="fold-differential", event="write-missing", variant=mode), triggers=triggers_of(srcs[mode]), detail=dict(cells=sorted(missing), variant_code=codes[mode][:600])))
    res = dict(verdict="violated" if vio else ("held" if len(results) >= 2 else "skip"), counters=cnt, violations=vio, features=[case.get("stream", "?")])
    if nontrivial:
        res["key"] = sha(exprs)
    if exprs:
        res["sample"] = dict(expression=exprs[0], literal_variant=srcs.get("literal", "")[len(HEADER) :][:200], runtime_value=(results.get("stack") or {}))
    return res


_LT = None


def _cellkey(c):
    global _LT
    if _LT is None:
        from .. import enums as E

        _LT = dict(E.positional("T", "pinned"))
    return _LT.get(c.split(".")[1])


def run_case(task, i):
    c = gen_case(task, i)
    r = check_case(c)
    if r["violations"]:
        r["case"] = c
    elif i % 50:
        r.pop("sample", None)
    return r


def finish(agg, tier):
    c = agg["counters"]
    if c.get("folded_vs_runtime", 0) < 1000:
        return dict(inconclusive=f"too few folded-vs-runtime comparisons: {dict(c)}")
    return dict(coverage=dict(table_rows=len(_table()), exhaustive_table=True))
