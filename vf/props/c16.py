"""C16 — device, enum and instruction tables are internally consistent (exhaustive walk of live objects)."""
import inspect
import json

from .. import enums as E
from .. import ic10_isa
from ..common import VERIF, ensure_repo_on_path, sha
from ..crc import hash_signed

ID = "C16"
LEVEL = "exploration"
RULE = (
    "every live object of the generated tables is visited once: each singular structure class instantiated on d0, "
    "each plural singleton, every property of both (logic types, slots, batch forms), every intrinsic wrapper "
    "called with sentinel operands, every enum class iterated via __members__; one evaluation = one object x one "
    "obligation; distinct = (object, obligation) pairs, all non-trivial (each compares two independently obtained values)"
)
ASSUMPTIONS = [
    "HASH ground truth is the harness's own CRC-32 (self-checked against zlib at start-up)",
    "'has an output register' ground truth is the harness's hand-written ISA table (cross-checked with webapp/src/ic10.json for the opcode set)",
    "slot name -> index ground truth is (a) agreement between the singular and the plural class and the numbered slot and (b) the snapshot vf/refdata/structures_pinned.json taken at the pinned commit: a regenerated table that deliberately renumbers an existing named slot would be flagged",
]
TRUSTED = ["vf/crc.py", "vf/ic10_isa.py ISA table", "vf/refdata/structures_pinned.json"]

STREAMS = ["structures", "intrinsics", "enums", "compiled"]


def plan(tier, seed):
    return dict(tasks=[dict(stream=s, lo=0, hi=1) for s in STREAMS], nworkers=4, timeout=300, max_samples=6)


def worker_init():
    ensure_repo_on_path()


def gen_case(task, i):
    return dict(stream=task["stream"])


def _v(event, **kw):
    detail = kw.pop("detail", "")
    return dict(signature=dict(monitor="table-walk", event=event, **kw), triggers=[], detail=detail)


def snapshot_structures():
    """Used once at the pinned commit to write refdata/structures_pinned.json."""
    from stationeers_pytrapic import structures_generated as SG
    from stationeers_pytrapic import types as T

    out = {}
    for n, c in vars(SG).items():
        if isinstance(c, type) and issubclass(c, T._BaseStructure) and c is not T._BaseStructure and getattr(c, "_prefab_name", None):
            o = c("d0")
            slots = {}
            logic = []
            for a in dir(o):
                if a.startswith("_"):
                    continue
                try:
                    v = getattr(o, a)
                except Exception:
                    continue
                if isinstance(v, T._BaseSlotType):
                    slots[a] = int(v._slot_index)
                elif isinstance(v, T._DeviceLogicType):
                    logic.append(a)
            out[n] = dict(prefab=c._prefab_name, hash=c._hash, slots=slots, logic=sorted(logic), plural=None)
    for n, o in vars(SG).items():
        if isinstance(o, T._BaseStructures):
            try:
                out[type(o.Average).__name__]["plural"] = n
            except Exception:
                pass
    return out


def _pinned():
    p = VERIF / "vf" / "refdata" / "structures_pinned.json"
    return json.loads(p.read_text()) if p.exists() else {}


def _lt_name(x):
    return getattr(x, "name", x)


def check_structures():
    from stationeers_pytrapic import structures_generated as SG
    from stationeers_pytrapic import types as T
    from stationeers_pytrapic.types_generated import LogicBatchMethod, LogicSlotType, LogicType
    from stationeers_pytrapic.utils import OutputMode, set_output_mode

    set_output_mode(OutputMode.VERBOSE)
    vio = []
    cnt = dict(singular=0, plural=0, hash_checked=0, logic_props=0, slot_props=0, named_slots=0, batch_forms=0, instr_built=0, pinned_compared=0, pinned_absent=0)
    keys = []
    pinned = _pinned()
    out = T.IC10Register("x", code_expr="r9")
    singular = {n: c for n, c in vars(SG).items() if isinstance(c, type) and issubclass(c, T._BaseStructure) and c is not T._BaseStructure and getattr(c, "_prefab_name", None)}
    plural_inst = {n: o for n, o in vars(SG).items() if isinstance(o, T._BaseStructures)}
    reached = {}  # singular class -> plural names whose batch forms yield it

    def props(o):
        res = {}
        for a in dir(o):
            if a.startswith("_"):
                continue
            try:
                res[a] = getattr(o, a)
            except Exception as e:  # a property that raises on a plain instance
                res[a] = e
        return res

    def slot_map(o, base):
        m = {}
        for a, v in props(o).items():
            if isinstance(v, base):
                m[a] = v
        return m

    for n, c in singular.items():
        cnt["singular"] += 1
        h = hash_signed(c._prefab_name)
        cnt["hash_checked"] += 1
        keys.append(f"hash:{n}")
        if c._hash != h:
            vio.append(_v("prefab-hash-mismatch", cls=n, detail=f"{n}._hash={c._hash} but CRC-32('{c._prefab_name}')={h}"))
        o = c("d0")
        pin = pinned.get(n)
        if pin is None:
            cnt["pinned_absent"] += 1
        ps = props(o)
        smap = {}
        for a, v in ps.items():
            if isinstance(v, T._DeviceLogicType):
                cnt["logic_props"] += 1
                keys.append(f"lt:{n}.{a}")
                lt = v._logic_type
                if not isinstance(lt, (LogicType, str)):
                    vio.append(_v("logic-type-wrong-enum", cls=n, attr=a, detail=f"{n}.{a} carries {lt!r}"))
                if _lt_name(lt) != a:
                    vio.append(_v("logic-type-name-mismatch", cls=n, attr=a, detail=f"{n}.{a} reads logic type {_lt_name(lt)!r}"))
                if a not in LogicType.__members__:
                    vio.append(_v("logic-type-unknown", cls=n, attr=a, detail=f"{n}.{a} is not a LogicType member"))
                ld = v._load(out)
                st = v._set(T.IC10Operand(7))
                cnt["instr_built"] += 2
                s1, s2 = ld.to_string().split(), st.to_string().split()
                if s1 != ["l", "r9", "d0", a] or s2 != ["s", "d0", a, "7"]:
                    vio.append(_v("logic-type-instruction", cls=n, attr=a, detail=f"{s1} / {s2}"))
            elif isinstance(v, T._BaseSlotType):
                cnt["slot_props"] += 1
                smap[a] = v
        # numbered / named slots
        for a, v in smap.items():
            idx = int(v._slot_index)
            keys.append(f"slot:{n}.{a}")
            if a.startswith("slot") and a[4:].isdigit():
                if idx != int(a[4:]):
                    vio.append(_v("numbered-slot-index", cls=n, attr=a, detail=f"{n}.{a} has index {idx}"))
            else:
                cnt["named_slots"] += 1
                num = smap.get(f"slot{idx}")
                if num is None or type(num) is not type(v) or int(num._slot_index) != idx:
                    vio.append(_v("named-slot-unresolved", cls=n, attr=a, detail=f"{n}.{a} -> index {idx}, no matching slot{idx}"))
                if pin is not None and a in pin["slots"]:
                    cnt["pinned_compared"] += 1
                    if pin["slots"][a] != idx:
                        vio.append(_v("named-slot-renumbered", cls=n, attr=a, detail=f"{n}.{a} -> slot{idx}, pinned snapshot says slot{pin['slots'][a]}"))
            # every slot logic type of this slot: the property name, the LogicSlotType member it carries and the
            # instruction it builds must agree (in verbose mode a LogicType of the same name would print identically)
            for stn, sv in props(v).items():
                if isinstance(sv, T._DeviceSlotType):
                    cnt["slot_type_props"] = cnt.get("slot_type_props", 0) + 1
                    stv = sv._slot_type
                    if not isinstance(stv, LogicSlotType) or stv.name != stn:
                        vio.append(_v("slot-type-mismatch", cls=n, attr=f"{a}.{stn}", detail=f"{n}.{a}.{stn} carries {stv!r}"))
                        continue
                    s1 = sv._load(out).to_string().split()
                    cnt["instr_built"] += 1
                    if s1 != ["ls", "r9", "d0", str(idx), stn]:
                        vio.append(_v("slot-instruction", cls=n, attr=f"{a}.{stn}", detail=str(s1)))
        # two names for one index inside a class are fine; one name must not be shared by two indices (dict keys guarantee)

    for pn, p in plural_inst.items():
        cnt["plural"] += 1
        pc = type(p)
        keys.append(f"plural:{pn}")
        pname = getattr(pc, "_prefab_name", None)
        if not isinstance(pname, str) or not pname:
            vio.append(_v("plural-without-prefab", cls=pn))
            continue
        cnt["hash_checked"] += 1
        if pc._hash != hash_signed(pname):
            vio.append(_v("prefab-hash-mismatch", cls=pn, detail=f"{pn}._hash={pc._hash} but CRC-32('{pname}')={hash_signed(pname)}"))
        sing_cls = None
        for bm in ("Average", "Sum", "Minimum", "Maximum"):
            cnt["batch_forms"] += 1
            try:
                s = getattr(p, bm)
            except Exception as e:
                vio.append(_v("batch-form-raises", cls=pn, attr=bm, detail=repr(e)))
                continue
            if isinstance(s, T._DevicesLogicType) and bm in ("Minimum", "Maximum") and _lt_name(s._logic_type) == bm and s._obj is p:
                # the device has a logic type called Minimum/Maximum which shadows the batch form of the
                # same name (LogicPidController); the batch form stays reachable through Average/Sum
                cnt["batch_form_shadowed_by_logic_type"] = cnt.get("batch_form_shadowed_by_logic_type", 0) + 1
                continue
            if not isinstance(s, T._BaseStructure) or type(s).__name__ not in singular or singular[type(s).__name__] is not type(s):
                vio.append(_v("batch-form-not-singular", cls=pn, attr=bm, detail=repr(type(s))))
                continue
            if type(s)._prefab_name != pname or type(s)._hash != pc._hash:
                vio.append(_v("batch-form-other-prefab", cls=pn, attr=bm, detail=f"{pn}.{bm} -> {type(s).__name__} ({type(s)._prefab_name}, {type(s)._hash}) vs ({pname}, {pc._hash})"))
            if s._batch_mode != getattr(LogicBatchMethod, bm):
                vio.append(_v("batch-form-mode", cls=pn, attr=bm, detail=repr(s._batch_mode)))
            sing_cls = type(s)
            reached.setdefault(type(s).__name__, set()).add(pn)
        # ["name"] keeps the plural class
        try:
            q = p["Some Name"]
            if type(q) is not pc or q._name != "Some Name":
                vio.append(_v("named-batch-other-class", cls=pn, detail=f"{type(q).__name__} name={getattr(q, '_name', None)!r}"))
            else:
                qa = q.Average
                if type(qa) is not sing_cls or qa._name != "Some Name":
                    vio.append(_v("named-batch-form", cls=pn, detail=f"{type(qa).__name__} name={getattr(qa, '_name', None)!r}"))
        except Exception as e:
            vio.append(_v("named-batch-raises", cls=pn, detail=repr(e)))
        # logic types and slots of the plural agree with the singular
        pp = props(p)
        if sing_cls is not None:
            so = sing_cls("d0")
            sp_ = props(so)
            # Average/Sum/Minimum/Maximum are batch forms on the plural and may be logic types on the singular
            s_logic = {a for a, v in sp_.items() if isinstance(v, T._DeviceLogicType) and a not in LogicBatchMethod.__members__}
            p_logic = {a for a, v in pp.items() if isinstance(v, T._DevicesLogicType) and a not in LogicBatchMethod.__members__}
            if s_logic != p_logic:
                vio.append(_v("singular-plural-logic-types-differ", cls=pn, detail=f"only singular: {sorted(s_logic - p_logic)[:6]} only plural: {sorted(p_logic - s_logic)[:6]}"))
            s_slots = {a: int(v._slot_index) for a, v in sp_.items() if isinstance(v, T._BaseSlotType)}
            p_slots = {a: int(v._slot_index) for a, v in pp.items() if isinstance(v, T._BaseSlotTypes)}
            keys.append(f"slots-agree:{pn}")
            if s_slots != p_slots:
                diff = {a: (s_slots.get(a), p_slots.get(a)) for a in set(s_slots) | set(p_slots) if s_slots.get(a) != p_slots.get(a)}
                vio.append(_v("singular-plural-slots-differ", cls=pn, detail=str(diff)[:300]))
        for a, v in pp.items():
            if isinstance(v, T._DevicesLogicType):
                cnt["logic_props"] += 1
                keys.append(f"lt:{pn}.{a}")
                if _lt_name(v._logic_type) != a:
                    vio.append(_v("logic-type-name-mismatch", cls=pn, attr=a, detail=f"reads {_lt_name(v._logic_type)!r}"))
                s1 = v._load(LogicBatchMethod.Sum)(out).to_string().split()
                s2 = v._set(T.IC10Operand(7)).to_string().split()
                cnt["instr_built"] += 2
                hs = f'HASH("{pname}")'
                if s1 != ["lb", "r9", hs, a, "Sum"] or s2 != ["sb", hs, a, "7"]:
                    vio.append(_v("batch-instruction", cls=pn, attr=a, detail=f"{s1} / {s2}"))
            elif isinstance(v, T._BaseSlotTypes):
                cnt["slot_props"] += 1
                for stn, sv in props(v).items():
                    if isinstance(sv, T._DevicesSlotType):
                        cnt["slot_type_props"] = cnt.get("slot_type_props", 0) + 1
                        stv = sv._slot_type
                        if not isinstance(stv, LogicSlotType) or stv.name != stn:
                            vio.append(_v("slot-type-mismatch", cls=pn, attr=f"{a}.{stn}", detail=f"{pn}.{a}.{stn} carries {stv!r}"))
                            continue
                        s1 = sv._load(LogicBatchMethod.Sum)(out).to_string().split()
                        cnt["instr_built"] += 1
                        if s1 != ["lbs", "r9", f'HASH("{pname}")', str(int(v._slot_index)), stn, "Sum"]:
                            vio.append(_v("batch-slot-instruction", cls=pn, attr=f"{a}.{stn}", detail=str(s1)))

    for n in singular:
        keys.append(f"reach:{n}")
        r = reached.get(n, set())
        if len(r) != 1:
            vio.append(_v("singular-plural-pairing", cls=n, detail=f"singular {n} is the batch form of {sorted(r)} (want exactly one plural singleton)"))
    # pinned classes that vanished are not a violation of this property (table may shrink) -> counted
    cnt["pinned_classes_missing"] = len([n for n in pinned if n not in singular])
    return vio, cnt, keys, dict(kind="structure", cls="Furnace", walked="hash, Import->slot0/Export->slot1 (singular+plural), 50 logic types, l/s/lb/sb/ls/lbs instructions")


_SENT = [101, 102, 103, 104, 105, 106]


def check_intrinsics():
    from stationeers_pytrapic import intrinsics as I
    from stationeers_pytrapic import types as T
    from stationeers_pytrapic.utils import OutputMode, set_output_mode

    set_output_mode(OutputMode.VERBOSE)
    vio = []
    cnt = dict(wrappers=0, wrappers_called=0, with_output=0, without_output=0)
    keys = []
    fns = [(n, f) for n, f in vars(I).items() if inspect.isfunction(f) and f.__module__ == I.__name__]
    names = set()
    for n, f in fns:
        cnt["wrappers"] += 1
        keys.append(f"intrinsic:{n}")
        op = n[:-1] if n.endswith("_") else n
        names.add(op)
        params = list(inspect.signature(f).parameters)
        args = _SENT[: len(params)]
        if op not in ic10_isa.ISA:
            # helper functions (HASH, STR) live in the same module; only something that builds an instruction is a wrapper
            try:
                ins = f(*args)
            except Exception:
                ins = None
            if isinstance(ins, T.IC10Instruction):
                vio.append(_v("wrapper-for-unknown-opcode", opcode=op, detail=f"{n}() emits {ins.op!r}"))
            else:
                cnt["non_wrapper_helpers"] = cnt.get("non_wrapper_helpers", 0) + 1
            continue
        try:
            ins = f(*args)
        except Exception as e:
            vio.append(_v("wrapper-raises", opcode=op, detail=repr(e)))
            continue
        cnt["wrappers_called"] += 1
        if not isinstance(ins, T.IC10Instruction):
            vio.append(_v("wrapper-returns-non-instruction", opcode=op, detail=repr(type(ins))))
            continue
        if ins.op != op:
            vio.append(_v("wrapper-opcode-mismatch", opcode=op, detail=f"{n}() emits {ins.op!r}"))
        got = [getattr(x, "value", x) for x in ins.inputs]
        if got != args:
            vio.append(_v("wrapper-operand-order", opcode=op, detail=f"{n}{tuple(args)} -> inputs {got}"))
        sig = ic10_isa.ISA[op]
        want_out = bool(sig) and sig[0] == "R"
        has_out = ins.output is not None
        cnt["with_output" if has_out else "without_output"] += 1
        if want_out != has_out:
            vio.append(_v("wrapper-output-mismatch", opcode=op, detail=f"ISA {op} {' '.join(sig)}: wrapper {'yields' if has_out else 'yields no'} result, takes {len(params)} arguments"))
        elif len(params) != len(sig) - (1 if want_out else 0):
            vio.append(_v("wrapper-arity", opcode=op, detail=f"ISA {op} {' '.join(sig)}: wrapper takes {len(params)} arguments"))
    missing = sorted(set(ic10_isa.ISA) - names)
    cnt["isa_opcodes_without_wrapper"] = len(missing)
    return vio, cnt, keys, dict(kind="intrinsic", name="lbn", call="lbn(101,102,103,104)", emitted="lbn <out> 101 102 103 104", isa="R V V T B")


def check_compiled_intrinsics():
    """The same obligation one level up: a call of an intrinsic in a program, compiled by compile_code, must put the
    arguments on the operands their parameters name - also when the call binds them by keyword, in any order, or mixes
    positional and keyword arguments (Python binds by name; the wrappers themselves do)."""
    from stationeers_pytrapic import intrinsics as I
    from stationeers_pytrapic.compiler import compile_code
    from stationeers_pytrapic.compile_pass import CompileOptions

    vio = []
    cnt = dict(compiled_calls=0, compiled_calls_judged=0, compiled_keyword_forms=0, compiled_forms_rejected=0)
    keys = []
    fns = [(n, f) for n, f in vars(I).items() if inspect.isfunction(f) and f.__module__ == I.__name__]
    sample = None
    for n, f in fns:
        op = n[:-1] if n.endswith("_") else n
        sig = ic10_isa.ISA.get(op)
        params = list(inspect.signature(f).parameters)
        if not sig or sig[0] != "R" or len(sig) < 3 or any(k != "V" for k in sig[1:]) or len(params) != len(sig) - 1:
            continue
        for xpos in range(len(params)):
            vals = ["x" if j == xpos else str(101 + j) for j in range(len(params))]
            forms = {
                "positional": ", ".join(vals),
                "keywords": ", ".join(f"{p}={v}" for p, v in zip(params, vals)),
                "keywords-reversed": ", ".join(f"{p}={v}" for p, v in reversed(list(zip(params, vals)))),
                "mixed": ", ".join([vals[0]] + [f"{p}={v}" for p, v in reversed(list(zip(params[1:], vals[1:])))]),
                "keywords-rotated": ", ".join(f"{p}={v}" for p, v in (list(zip(params, vals))[1:] + list(zip(params, vals))[:1])),
            }
            for form, argtext in forms.items():
                src = f"from stationeers_pytrapic.symbols import *\nx = db.Setting\ny = {n}({argtext})\ndb.Setting = y\n"
                for compact in (False, True):
                    cnt["compiled_calls"] += 1
                    try:
                        res = compile_code(src, CompileOptions(compact=compact, append_version=False))
                    except Exception as e:
                        res = {"error": repr(e)}
                    code = res.get("code") if isinstance(res, dict) else None
                    if not isinstance(code, str):
                        cnt["compiled_forms_rejected"] += 1
                        continue
                    got = None
                    for line in code.splitlines():
                        t = line.split("#")[0].split()
                        if t and t[0] == op:
                            got = t[2:]
                            break
                    if got is None:
                        cnt["compiled_call_not_emitted_as_instruction"] = cnt.get("compiled_call_not_emitted_as_instruction", 0) + 1
                        continue
                    cnt["compiled_calls_judged"] += 1
                    if form != "positional":
                        cnt["compiled_keyword_forms"] += 1
                    keys.append(f"compiled:{n}:{xpos}:{form}:{int(compact)}")
                    ok = len(got) == len(vals) and all((g.startswith("r") and g[1:].isdigit()) if v == "x" else g == v for g, v in zip(got, vals))
                    if not ok:
                        vio.append(_v("compiled-call-operand-order", opcode=op, form=form, detail=f"y = {n}({argtext}) [compact={compact}] emits {op} <out> {' '.join(got)}; parameters are {params}"))
                    elif sample is None and form == "keywords-reversed":
                        sample = dict(kind="compiled-intrinsic", call=f"{n}({argtext})", emitted=f"{op} <out> {' '.join(got)}", parameters=params)
    return vio, cnt, keys, sample or dict(kind="compiled-intrinsic")


def check_enums():
    from stationeers_pytrapic import types_generated as TG
    from stationeers_pytrapic import utils as U

    vio = []
    cnt = dict(enum_classes=0, members=0, format_checked=0, pinned_compared=0, pinned_absent=0)
    keys = []
    live = E.live()
    pinned = E.pinned()
    for cn, members in live.items():
        cnt["enum_classes"] += 1
        byval = {}
        for m, v in members.items():
            cnt["members"] += 1
            keys.append(f"enum:{cn}.{m}")
            byval.setdefault(v, []).append(m)
            if cn in pinned and m in pinned[cn]:
                cnt["pinned_compared"] += 1
            else:
                cnt["pinned_absent"] += 1
        for v, ms in byval.items():
            if len(ms) > 1:
                vio.append(_v("enum-value-shared", cls=cn, detail=f"{cn}: {ms} all = {v}"))
        cls = getattr(TG, cn)
        for m in cls.__members__.values():
            U.set_output_mode(U.OutputMode.VERBOSE)
            verbose = U.format_enum(m)
            U.set_output_mode(U.OutputMode.COMPACT)
            compact = U.format_enum(m)
            U.set_output_mode(U.OutputMode.VERBOSE)
            cnt["format_checked"] += 1
            name = verbose.split(".")[-1] if isinstance(verbose, str) else None
            if name not in cls.__members__ or int(cls.__members__[name].value) != int(compact):
                vio.append(_v("enum-name-number-disagree", cls=cn, detail=f"verbose {verbose!r} compact {compact!r}"))
            if isinstance(verbose, str) and "." in verbose and verbose.split(".")[0] != cn:
                vio.append(_v("enum-class-prefix", cls=cn, detail=verbose))
    return vio, cnt, keys, dict(kind="enum", cls="LogicBatchMethod", members=live.get("LogicBatchMethod"))


def check_case(case):
    fn = dict(structures=check_structures, intrinsics=check_intrinsics, enums=check_enums, compiled=check_compiled_intrinsics)[case["stream"]]
    vio, cnt, keys, sample = fn()
    cnt = dict(cnt)
    cnt["obligations"] = len(keys)
    return dict(verdict="violated" if vio else "held", counters=cnt, key=[sha(k) for k in keys], violations=vio, sample=sample, features=[case["stream"]])


def run_case(task, i):
    c = gen_case(task, i)
    r = check_case(c)
    if r["violations"]:
        r["case"] = c
    return r


def finish(agg, tier):
    c = agg["counters"]
    if c.get("singular", 0) < 50 or c.get("wrappers_called", 0) < 50 or c.get("enum_classes", 0) < 5 or c.get("compiled_keyword_forms", 0) < 100:
        return dict(inconclusive=f"tables barely visited: {dict(c)}")
    return dict(coverage=dict(exhaustive=True, evaluations=len(agg["keys"]), walks=agg["evaluations"]))
