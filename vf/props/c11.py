"""C11 — a compilation's result does not depend on what was compiled before (history checker + fresh-process references)."""
import copy
import json
import os
import subprocess
import sys

from .. import gen_text, harness as H
from .. import pool, workload
from ..common import HEADER, OPTION_NAMES, PYTHON, REPO_SRC, VERIF, opts_from_bits, opts_key, rng, seed_env, sha

ID = "C11"
LEVEL = "exploration"
RULE = (
    "a case is a history: 30-120 compile requests drawn with repetition from a pool of 8-14 distinct requests chosen "
    "to touch every piece of process-wide state (compact/verbose alternation, the same constexpr function name with "
    "different bodies, '# pytrapic:' programs sharing one options object with later requests, error-producing "
    "programs between good ones, alias/define programs, multi-module programs, generated programs); the whole "
    "history runs in one long-lived worker; monitors: (1) every occurrence of a request must return the same result "
    "as its first occurrence; (2) it must equal the result of the same request compiled alone in fresh processes "
    "(python -c, one request each; in the quick tier one request per history that way and the others in children "
    "forked from a template process that has imported the package but never compiled anything) under 2 (quick) / 4 "
    "(thorough) values of PYTHONHASHSEED, which must agree with each other; (3) deep snapshots of the options object and of the source mapping before and after each call must "
    "be equal; non-trivial = a request that occurs at least twice in a history after at least one different "
    "request; distinct = sha1(request)"
)
ASSUMPTIONS = [
    "a 'Timeout during evaluating constexpr' result (1 s budget incl. interpreter start-up, flaky under load) makes the request inconclusive, in the history and in the fresh processes alike",
    "fresh processes import the package from the same working tree (/repo/src)",
]
TRUSTED = ["subprocess / json transport of the fresh-process reference"]

FRESH = r"""
import sys, json
sys.path.insert(0, %r)
from stationeers_pytrapic.compiler import compile_code, CompileOptions
req = json.loads(sys.stdin.read())
src = req["src"]
res = compile_code(src, CompileOptions(**req["opts"]))
sys.stdout.write("\n@@RESULT@@" + json.dumps(res))
"""


ZYGOTE = r"""
import sys, json, os
sys.path.insert(0, %r)
import astroid
from stationeers_pytrapic.compiler import compile_code, CompileOptions
# warm astroid's own module cache (not transpiler state): parsing the dialect's import line builds the AST of the
# 34k-line generated tables, which otherwise costs seconds in every child
astroid.parse("from stationeers_pytrapic.symbols import *\n")
out = sys.stdout
for line in sys.stdin:
    line = line.strip()
    if not line:
        continue
    req = json.loads(line)
    r, w = os.pipe()
    pid = os.fork()
    if pid == 0:
        os.close(r)
        try:
            res = compile_code(req["src"], CompileOptions(**req["opts"]))
            data = json.dumps(res)
        except BaseException as e:
            data = json.dumps({"_fresh_failed": repr(e)})
        with os.fdopen(w, "w") as f:
            f.write(data)
        os._exit(0)
    os.close(w)
    with os.fdopen(r) as f:
        data = f.read()
    os.waitpid(pid, 0)
    out.write(data.replace("\n", " ") + "\n")
    out.flush()
"""

_zygotes = {}


def zygote_result(req, hashseed):
    """result of the request compiled in a child forked from a template process that has imported the package
    (under the given PYTHONHASHSEED) but has never compiled anything"""
    z = _zygotes.get(hashseed)
    if z is None or z.poll() is not None:
        env = dict(os.environ, PYTHONHASHSEED=str(hashseed))
        env.pop("PYTRAPIC_VERIF", None)
        z = subprocess.Popen([PYTHON, "-c", ZYGOTE % str(REPO_SRC)], stdin=subprocess.PIPE, stdout=subprocess.PIPE, stderr=subprocess.DEVNULL, env=env, text=True, bufsize=1)
        _zygotes[hashseed] = z
        if len(_zygotes) > 6:
            for k in list(_zygotes)[:-4]:
                try:
                    _zygotes.pop(k).kill()
                except Exception:
                    pass
    for attempt in range(3):
        try:
            z.stdin.write(json.dumps(dict(src=req["src"], opts=req["opts"])) + "\n")
            z.stdin.flush()
            line = z.stdout.readline()
            if not line:
                return dict(_fresh_failed="zygote died")
            res = json.loads(line)
        except Exception as e:
            return dict(_fresh_failed=repr(e))
        if not H.is_timeout(res):
            return res
    return res


def plan(tier, seed):
    q = tier == "quick"
    # a fresh process costs 4-8 CPU-seconds (imports + astroid warm-up): see gen_case for how many are taken
    return dict(tasks=pool.batches("history", 8 if q else 64, 1, tier=tier), nworkers=8, time_cap=80 if q else 880, timeout=300, max_samples=2)


def worker_init():
    H.repo()


CX = [
    ("@constexpr\ndef k(a):\n    return a * 2\n", 42),
    ("@constexpr\ndef k(a):\n    return a * 3\n", 63),
    ("@constexpr\ndef k(a):\n    return a + 100\n", 121),
]


def _pool(r, i):
    P = []
    base = [
        'db.Setting = HASH("Some Name")\nd0.Mode = DisplayMode.Celsius\nWallLights["Bank1"].On = d0.Setting > 3\n',
        "x = WallHeater(d1, alias=True)\nx.On = d0.Setting\n",
        'define("K", 5)\nalias("sensor", d2)\ndb.Setting = d2.Setting\n',
        "def f(a):\n    db.Setting = a\nwhile True:\n    f(d0.Setting)\n    f(2)\n    yield_()\n",
        "db.Setting = 100000 + d0.Setting\ndb.Mode = 1947944864\n",
        "s = Stack(d3)\ns[0] = d0.Setting\nstack[100] = s[1]\n",
        "db.Setting = undefined_thing + 1\n",
        "def f(a):\n    return f(a)\ndb.Setting = f(1)\n",
        "db.Setting = (\n",
        "x = Furnace(d0)\nx = Furnace(d1)\n",
    ]
    for b in r.sample(base, 5):
        o = opts_from_bits(r.randrange(256))
        P.append(dict(src=HEADER + b, opts=o))
        if r.random() < 0.7:
            P.append(dict(src=HEADER + b, opts=dict(o, compact=not o["compact"])))
    # the same constexpr name / call text with different bodies
    for body, _v in r.sample(CX, 2):
        P.append(dict(src=HEADER + body + "db.Setting = k(21)\n", opts=opts_from_bits(r.randrange(256))))
    # a constexpr function whose *helper* changes between two requests while its own source and the call text stay
    # the same, and a call whose argument is another constexpr call
    for gain in r.sample([2, 3, 5], 2):
        P.append(dict(src=HEADER + f"@constexpr\ndef cgain():\n    return {gain}\n@constexpr\ndef setpoint(x):\n    return x * cgain() + 1\ndb.Setting = setpoint(50)\nd0.Setting = setpoint(cgain())\n", opts=opts_from_bits(r.randrange(256))))
    # a constexpr result that is a list, both iterated and indexed with a run-time index (jump table for >= 6
    # entries, odd lengths are padded): the cached list object must not change between compiles
    n = r.choice([5, 7, 7, 9])
    vals = ", ".join(str(10 * (k + 1)) for k in range(n))
    P.append(dict(src=HEADER + f"@constexpr\ndef levels():\n    return [{vals}]\nT = levels()\nfor v in T:\n    db.Setting = v\n    yield_()\nk = db.On\ndb.Mode = T[k]\n", opts=opts_from_bits(r.randrange(256))))
    # a main-script constexpr function that calls a constexpr helper of a library module; only the library differs
    # between the two requests
    for off in r.sample([100, 200, 300], 2):
        P.append(dict(src={"": HEADER + "from library import cfg\n@constexpr\ndef threshold(level):\n    return cfg.base(level) * 10 + 1\ndb.Setting = threshold(3)\n", "cfg": HEADER + f"@constexpr\ndef base(n):\n    return n + {off}\n"}, opts=opts_from_bits(r.randrange(256))))
    # pragma programs: the options object of this request is shared with the next request of the history
    for pr in r.sample(["# pytrapic: compact, remove-labels\n", "# pytrapic: no-inline-functions, use-push-pop-functions\n", "# pytrapic: no-append-version, generated_comments\n"], 2):
        P.append(dict(src=HEADER + pr + "def f(a):\n    db.Setting = a + HASH(\"x\")\nf(d0.Setting)\n", opts=opts_from_bits(r.randrange(256)), share_options=True))
    # multi-module
    lib = HEADER + "level = d0.Charge + 1\ndef upd(a):\n    global level\n    level = level + a\n    db.Setting = level\n"
    lib2 = HEADER + "level = d1.Charge + 2\ndef upd(a):\n    global level\n    level = level - a\n    db.Mode = level\n"
    P.append(dict(src={"": HEADER + "from library import alpha, beta\nwhile True:\n    alpha.upd(1)\n    beta.upd(2)\n    yield_()\n", "alpha": lib, "beta": lib2}, opts=dict(opts_from_bits(r.randrange(256)), inline_functions=False)))
    P.append(dict(src={"": HEADER + "from library import beta as alpha\nwhile True:\n    alpha.upd(3)\n    yield_()\n", "beta": lib2}, opts=opts_from_bits(r.randrange(256))))
    # a directive inside a library module (only the main file's directives count) with an options object that the
    # next request re-uses
    libp = HEADER + r.choice(["# pytrapic: use-push-pop-functions, compact\n", "# pytrapic: no-inline-functions, remove-labels\n"]) + "def upd(a):\n    db.Setting = a\n"
    P.append(dict(src={"": HEADER + "from library import gamma\nwhile True:\n    gamma.upd(d0.Setting)\n    gamma.upd(2)\n    yield_()\n", "gamma": libp}, opts=opts_from_bits(r.randrange(256)), share_options=True))
    for k in range(2):
        P.append(dict(src=workload.gen_program(ID, "gen", i * 10 + k)[0]["src"], opts=opts_from_bits(r.randrange(256))))
    r.shuffle(P)
    return P[: r.randint(8, 14)]


def gen_case(task, i):
    r = rng(seed_env(), ID, task["stream"], i)
    P = _pool(r, i)
    n = r.randint(30, 120) if task.get("tier") != "quick" else r.randint(30, 60)
    order = [r.randrange(len(P)) for _ in range(n)]
    # make sure every request occurs and the first block alternates
    order = list(range(len(P))) + order
    hs = [0, r.randrange(1, 1000)] + ([r.randrange(1000, 2000)] if task.get("tier") == "thorough" else [])
    fresh_for = list(range(len(P)))
    # truly fresh interpreters cost 5-8 CPU-seconds each: 1 request per history in the quick tier, 4 in the thorough
    # tier (under 3 hash seeds); the other requests are referenced by forked pristine children
    fresh_for = sorted(r.sample(fresh_for, 1 if task.get("tier") != "thorough" else min(4, len(fresh_for))))
    return dict(pool=P, order=order, hashseeds=hs, fresh_for=fresh_for, stream=task["stream"], dict_options=(i % 3 == 1))


def fresh(req, hashseed):
    env = dict(os.environ, PYTHONHASHSEED=str(hashseed))
    env.pop("PYTRAPIC_VERIF", None)
    env.pop("PYTHONDONTWRITEBYTECODE", None)
    if os.environ.get("VERIF_PYCACHE"):
        env["PYTHONPYCACHEPREFIX"] = os.environ["VERIF_PYCACHE"]
    else:
        env["PYTHONDONTWRITEBYTECODE"] = "1"
    for attempt in range(3):
        try:
            p = subprocess.run([PYTHON, "-c", FRESH % str(REPO_SRC)], input=json.dumps(dict(src=req["src"], opts=req["opts"])), capture_output=True, text=True, env=env, timeout=120)
        except subprocess.TimeoutExpired:
            return dict(_fresh_failed="timeout")
        out = p.stdout
        if "@@RESULT@@" not in out:
            return dict(_fresh_failed=f"exit {p.returncode}: {p.stderr[-300:]}")
        res = json.loads(out.split("@@RESULT@@", 1)[1])
        if not H.is_timeout(res):
            return res
    return res


def _norm(res):
    """results cross a JSON boundary for the fresh processes: normalise the in-process ones the same way"""
    return json.loads(json.dumps(res))


def check_case(case):
    cc, CO = H.repo()
    P = case["pool"]
    cnt = dict(histories=1, requests=0, distinct_requests=len(P), repeated_after_other=0, compared_with_first=0, fresh_processes=0, compared_with_fresh=0, hashseed_pairs=0, inputs_snapshotted=0, timeouts=0, shared_options_calls=0, successes=0, errors=0)
    vio = []
    first = {}
    keys = []
    shared = None  # an options object that a pragma request used and that the next request re-uses
    prev = None
    globals_before = _globals_state()
    for pos, k in enumerate(case["order"]):
        req = P[k]
        src = copy.deepcopy(req["src"])
        as_dict = bool(case.get("dict_options"))
        if shared is not None and not req.get("share_options"):
            # the caller keeps one options object and only sets the fields it cares about (as the web editor does)
            options = shared
            for n in OPTION_NAMES:
                if isinstance(options, dict):
                    options[n] = req["opts"][n]
                else:
                    setattr(options, n, req["opts"][n])
            cnt["shared_options_calls"] += 1
        elif as_dict:
            options = dict(req["opts"])  # compile_code also takes the options as a plain mapping
            cnt["dict_options_calls"] = cnt.get("dict_options_calls", 0) + 1
        else:
            options = CO(**req["opts"])
        if req.get("share_options"):
            shared = options
        else:
            shared = None
        odict = options if isinstance(options, dict) else options.__dict__
        snap_o, snap_s = copy.deepcopy(odict), copy.deepcopy(src)
        res = cc(src, options)
        cnt["requests"] += 1
        cnt["inputs_snapshotted"] += 1
        if odict != snap_o:
            changed = {n: (snap_o.get(n), odict.get(n)) for n in set(snap_o) | set(odict) if odict.get(n) != snap_o.get(n)}
            vio.append(dict(signature=dict(monitor="input-immutability", event="options-object-modified"), detail=dict(position=pos, request=k, changed=changed, dict_form=isinstance(options, dict))))
            odict.clear() if isinstance(options, dict) else None
            for n, v in snap_o.items():
                if isinstance(options, dict):
                    options[n] = v
                else:
                    setattr(options, n, v)
        if src != snap_s:
            vio.append(dict(signature=dict(monitor="input-immutability", event="source-mapping-modified"), detail=dict(position=pos, request=k)))
        if H.is_timeout(res):
            cnt["timeouts"] += 1
            prev = k
            continue
        res = _norm(res)
        cnt["successes" if "code" in res else "errors"] += 1
        if k in first:
            cnt["compared_with_first"] += 1
            if prev is not None and prev != k:
                cnt["repeated_after_other"] += 1
                keys.append(sha([req["src"], opts_key(req["opts"])]))
            if res != first[k][1]:
                vio.append(dict(signature=dict(monitor="history", event="result-differs-from-earlier-occurrence"), detail=dict(position=pos, first_position=first[k][0], request=k, previous_request=prev, globals_changed=_diff_globals(globals_before), now=str(res)[:600], earlier=str(first[k][1])[:600], request_src=str(req["src"])[:400], options=opts_key(req["opts"]))))
                break
        else:
            first[k] = (pos, res)
        prev = k
    # fresh-process references
    if not vio:
        for k, (pos, res) in first.items():
            req = P[k]
            refs = []
            truly = k in case.get("fresh_for", list(range(len(P))))
            for h in case["hashseeds"]:
                if truly:
                    fr = fresh(req, h)
                    cnt["fresh_processes"] += 1
                else:
                    fr = zygote_result(req, h)
                    cnt["forked_pristine_children"] = cnt.get("forked_pristine_children", 0) + 1
                if "_fresh_failed" in fr or H.is_timeout(fr):
                    cnt["timeouts"] += 1
                    continue
                refs.append((h, fr))
            for a in range(1, len(refs)):
                cnt["hashseed_pairs"] += 1
                if refs[a][1] != refs[0][1]:
                    vio.append(dict(signature=dict(monitor="fresh-process", event="result-depends-on-hash-seed"), detail=dict(request=k, seeds=[refs[0][0], refs[a][0]], a=str(refs[0][1])[:500], b=str(refs[a][1])[:500], request_src=str(req["src"])[:400], options=opts_key(req["opts"]))))
                    break
            if refs:
                cnt["compared_with_fresh"] += 1
                if refs[0][1] != res:
                    vio.append(dict(signature=dict(monitor="fresh-process", event="history-result-differs-from-fresh-process"), detail=dict(request=k, position=pos, in_history=str(res)[:600], fresh=str(refs[0][1])[:600], request_src=str(req["src"])[:400], options=opts_key(req["opts"]), globals_changed=_diff_globals(globals_before))))
            if len(vio) >= 3:
                break
    for v in vio:
        v["triggers"] = []
    out = dict(verdict="violated" if vio else "held", counters=cnt, violations=vio, features=[case.get("stream", "?")], key=keys)
    out["sample"] = dict(history_length=len(case["order"]), order_head=case["order"][:25], pool=[dict(options=opts_key(p["opts"]), src_head=(p["src"] if isinstance(p["src"], str) else p["src"][""])[40:140]) for p in P[:6]])
    return out


def _globals_state():
    try:
        from stationeers_pytrapic import types as T
        from stationeers_pytrapic import utils as U

        return dict(output_mode=int(U._output_mode), constexpr_cache=len(U._eval_constexpr_cache), all_hashes=len(U._all_hashes), d0=repr(T.d0.__dict__), db=repr(T.db.__dict__), stack=repr(T.stack._obj.__dict__), r0=T.r0.code_expr)
    except Exception as e:
        return dict(error=repr(e))


def _diff_globals(before):
    now = _globals_state()
    return {k: (before.get(k), now.get(k)) for k in now if now.get(k) != before.get(k)}


def run_case(task, i):
    c = gen_case(task, i)
    r = check_case(c)
    if r["violations"]:
        r["case"] = c
    return r


def finish(agg, tier):
    c = agg["counters"]
    if c.get("compared_with_first", 0) < 120 or c.get("compared_with_fresh", 0) < 20:
        return dict(inconclusive=f"history checker saw too little: {dict(c)}")
    return None
