"""C02 — every combination of compile options preserves program behaviour (differential, no source model)."""
from .. import harness as H
from .. import pool, workload
from ..common import OPTION_NAMES, opts_from_bits, opts_key, rng, seed_env, sha
from ..progcheck import Compiled, error_class, event_sig, first_event, funcs_of
from ..triggers import triggers_of

ID = "C02"
LEVEL = "exploration"
RULE = (
    "a case is one source compiled under k option vectors (always the default vector, the two vectors of the test-suite, "
    "the eight {inline, tail-call, push/pop} corners, the rest random out of 256) and executed on the reference IC10 "
    "machine under the same device environments; every successful vector's effect trace is compared with the first "
    "successful one; one vector is additionally delivered through '# pytrapic:' and must give the same code as the API; "
    "non-trivial = at least 2 vectors compiled and the reference trace has >= 3 effects; distinct = sha1(source)"
)
ASSUMPTIONS = [
    "the reference IC10 machine (vf/ic10_vm.py) within its trusted arithmetic domain; both sides of every comparison run on it, so a modelling error cancels unless options change which instructions are used",
    "a vector that yields an error where another yields code is recorded (vector_error_asymmetry) but not judged: 'Running out of registers' legitimately depends on inlining",
    "the 128-lines-per-tick pre-emption of the game is not modelled (instruction counts legitimately differ between vectors)",
]
TRUSTED = ["vf/ic10_vm.py", "vf/ic10_arith.py", "vf/env.py"]

CORNERS = [dict(inline_functions=a, tail_call_optimization=b, use_push_pop_functions=c) for a in (True, False) for b in (False, True) for c in (False, True)]


def plan(tier, seed):
    q = tier == "quick"
    tasks = pool.batches("gen", 560 if q else 10000, 10) + pool.batches("echo", 160 if q else 3000, 10) + pool.batches("tail", 180 if q else 3000, 10) + pool.batches("corpus", len(workload.corpus()), 2)
    for hz in workload.HAZARDS:
        tasks += pool.batches(f"defect:{hz}", 30 if q else 300, 10)
    return dict(tasks=tasks, nworkers=14, time_cap=85 if q else 880)


def worker_init():
    H.repo()


def _vectors(r, k):
    vs = [dict(), dict(compact=False, inline_functions=False, append_version=False), dict(compact=True, inline_functions=True, append_version=False, remove_labels=True)]
    vs += [dict(c, remove_labels=r.random() < 0.5, compact=r.random() < 0.5) for c in CORNERS]
    while len(vs) < k:
        vs.append(opts_from_bits(r.randrange(256)))
    return vs[:k]


def gen_case(task, i):
    st = task["stream"]
    r = rng(seed_env(), ID, st, i, "v")
    tier_k = task.get("k", 13)
    if st == "corpus":
        c = workload.corpus_case(i)
    elif st == "tail":
        from .. import gen_shapes

        c = dict(src=gen_shapes.tail_program(r))
    elif st == "echo":
        from .. import gen_shapes

        c = dict(src=gen_shapes.echo_program(r))  # incl. the suffix-name, once-called and pass-through families
    else:
        c, _ = workload.gen_program(ID, st, i)
    return dict(src=c["src"], vectors=_vectors(r, tier_k), env_seeds=[f"{i}:0", f"{i}:1"], stream=st, pragma_vector=opts_from_bits(r.randrange(256)))


def pragma_line(o, r=None):
    parts = []
    for n in OPTION_NAMES:
        nm = n.replace("_", "-")
        parts.append(nm if o[n] else "no-" + nm)
    return "# pytrapic: " + ", ".join(parts) + "\n"


def check_case(case, caps=None):
    src = case["src"]
    caps = caps or dict(max_steps=40000, max_effects=100)
    fmeta = funcs_of(src)
    lits = H.literals(src)
    cnt = dict(compiles=0, successes=0, errors=0, vm_runs=0, compared=0, same=0, truncated=0, unmodelled=0, vector_error_asymmetry=0, calls_executed=0, tail_calls=0, pushes=0, effects_compared=0, pragma_pairs=0, machine_events=0)
    feats = set([case.get("stream", "?")])
    vio = []
    comp = []
    for o in case["vectors"]:
        c = Compiled(src, o, fmeta)
        cnt["compiles"] += 1
        if c.ok:
            cnt["successes"] += 1
            feats.add("ok:" + "".join(str(int(bool(o.get(n, d)))) for n, d in (("inline_functions", True), ("tail_call_optimization", False), ("use_push_pop_functions", False))))
        else:
            cnt["errors"] += 1
            feats.add("err:" + str(error_class(c.error)))
        comp.append(c)
    oks = [c for c in comp if c.ok]
    if oks and len(oks) < len(comp):
        cnt["vector_error_asymmetry"] += len(comp) - len(oks)
    trig = None
    nontrivial = False
    sample = None
    main_src = src if isinstance(src, str) else src.get("", "")
    mods_only = None if isinstance(src, str) else {k: v for k, v in src.items() if k}
    _refs = {}

    def _ref_for(es):
        # the reference run is only needed when two vectors differ in a numeric value (conditioning of the source)
        if es not in _refs:
            try:
                _refs[es] = H.run_ref(main_src, es, lits, modules=mods_only, **caps)
            except Exception:
                _refs[es] = None
        return _refs[es]

    if len(oks) >= 2:
        for es in case["env_seeds"]:
            base = None
            for c in oks:
                vm = H.run_vm(c.code, es, lits, funcs=c.funcs, prog=c.prog, soft=True, **caps)
                cnt["vm_runs"] += 1
                if vm["status"] == "unmodelled":
                    cnt["unmodelled"] += 1
                    continue
                st = vm["stat"]
                cnt["calls_executed"] += st.get("calls", 0)
                cnt["tail_calls"] += st.get("tail_calls", 0)
                cnt["pushes"] += st.get("pushes", 0)
                cnt["machine_events"] += len(vm["events"])
                if base is None:
                    base = (c, vm)
                    if len(vm["effects"]) >= 3:
                        nontrivial = True
                    continue
                verdict, info, cond = H.compare_conditioned(base[1], vm, "a", "b", (lambda: _ref_for(es)), lambda: H.run_ref(main_src, es, lits, modules=mods_only, perturb=True, **caps))
                if cond:
                    cnt["ill_conditioned"] = cnt.get("ill_conditioned", 0) + 1
                cnt["compared"] += 1
                cnt["effects_compared"] += min(len(vm["effects"]), len(base[1]["effects"]))
                if verdict == "same":
                    cnt["same"] += 1
                elif verdict == "truncated":
                    cnt["truncated"] += 1
                else:
                    if trig is None:
                        trig = triggers_of(src)
                    ea, eb = first_event(base[1]), first_event(vm)
                    sig = dict(monitor="option-differential", event=info["kind"], machine_event_a=(ea or {}).get("event"), machine_event_b=(eb or {}).get("event"), tail_a=bool(base[0].opts.get("tail_call_optimization")), tail_b=bool(c.opts.get("tail_call_optimization")))
                    vio.append(dict(signature=sig, triggers=trig, detail=dict(info=info, options_a=base[0].key, options_b=c.key, env=es, event_a=event_sig(ea), event_b=event_sig(eb), code_a=base[0].code[:1500], code_b=c.code[:1500])))
                    break
            if sample is None and base is not None:
                sample = dict(vectors=[c.key for c in oks], env=es, reference_trace_head=base[1]["effects"][:5], status=base[1]["status"], source_head=(src if isinstance(src, str) else src[""])[:300])
    # the same vector through '# pytrapic:' must give the same result as through the API
    pv = case.get("pragma_vector")
    if pv and isinstance(src, str):
        a = H.compile_src(src, pv)
        b = H.compile_src(pragma_line(pv) + src, {})
        cnt["pragma_pairs"] += 1
        ca, cb = a.get("code"), b.get("code")
        if (ca is None) != (cb is None) or (ca is not None and ca != cb):
            # the extra first line shifts every source line number by one; only the comment options may show that
            if not (pv.get("original_code_as_comment") and ca is not None and cb is not None):
                if trig is None:
                    trig = triggers_of(src)
                vio.append(dict(signature=dict(monitor="pragma-vs-api", event="code-differs"), triggers=trig, detail=dict(options=opts_key(pv), api=str(ca)[:600], pragma=str(cb)[:600], api_error=a.get("error"), pragma_error=b.get("error"))))
    res = dict(verdict="violated" if vio else ("held" if len(oks) >= 2 else "skip"), counters=cnt, violations=vio, features=sorted(feats))
    if nontrivial:
        res["key"] = sha(src)
    if sample:
        res["sample"] = sample
    return res


def run_case(task, i):
    c = gen_case(task, i)
    r = check_case(c)
    if r["violations"]:
        r["case"] = c
    elif i % 40:
        r.pop("sample", None)
    return r


def finish(agg, tier):
    c = agg["counters"]
    f = agg["features"]
    per = {k[3:]: v for k, v in f.items() if k.startswith("ok:")}
    base = per.get("100", 0)
    low = [k for k in ("000", "001", "010", "011", "100", "101", "110", "111") if per.get(k, 0) < 0.25 * max(base, 1)]
    cov = dict(successes_per_inline_tail_pushpop=per)
    if c.get("compared", 0) < 200 or c.get("calls_executed", 0) < 100:
        return dict(inconclusive=f"too little compared: {c.get('compared', 0)} comparisons, {c.get('calls_executed', 0)} calls executed", coverage=cov)
    if low:
        return dict(inconclusive=f"option combinations {low} compiled for fewer than 25% of the programs that compile under the default vector", coverage=cov)
    return dict(coverage=cov)
