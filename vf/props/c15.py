"""C15 — in-source '# pytrapic:' directives set exactly the named options (independent directive parser + result equality)."""
import copy

from .. import harness as H
from .. import pool, workload
from ..common import HEADER, OPTION_DEFAULTS, OPTION_NAMES, opts_from_bits, opts_key, rng, seed_env, sha

ID = "C15"
LEVEL = "exploration"
RULE = (
    "a case is a program with 0-6 directive lines in generated spellings at random positions plus decoys that must "
    "have no effect, compiled with a caller-supplied option vector (dataclass or dict); the oracle compiles the "
    "same text with 'pytrapic:' neutralised in directive position ('pytrapiX:', same line structure) under the "
    "option vector computed by the harness's own reading of the rule, and demands an identical result dict; "
    "non-trivial = at least one directive names a known option whose value differs from the caller's; "
    "distinct = sha1(source, caller vector)"
)
ASSUMPTIONS = [
    "a 'line' is a '\\n'/'\\r\\n'-separated line of the main source (Python's own notion); the form-feed / U+2028 decoys test exactly that",
    "option names are matched exactly (case-sensitive) after replacing '-' by '_'",
]
TRUSTED = ["vf/harness.py directive_options (the harness's reading of the property statement)"]

BODIES = [
    "db.Setting = d0.Setting + 1\n",
    "def f(a):\n    db.Setting = a\nwhile True:\n    f(d0.Setting)\n    f(2)\n    yield_()\n",
    "def f(a):\n    return a * 2\ndef g(a):\n    db.Mode = a\n    f(a)\nwhile True:\n    db.Setting = f(d0.Setting)\n    g(1)\n    g(2)\n",
    'db.Setting = HASH("Some Name")\nd0.Mode = DisplayMode.Celsius\nx = d1.Setting\nif x > 3:\n    db.On = 1\nelse:\n    db.On = 0\n',
    "x = 0\nwhile x < 3:\n    x += 1\n    db.Setting = x\n",
    "def f(a, b):\n    if a > b:\n        return a\n    return b\nwhile True:\n    db.Setting = f(d0.Setting, d1.Setting)\n    db.Mode = f(1, d2.Setting)\n",
]


def plan(tier, seed):
    q = tier == "quick"
    return dict(tasks=pool.batches("directives", 6000 if q else 80000, 100) + pool.batches("generated", 600 if q else 8000, 20) + pool.batches("modules", 400 if q else 5000, 50), nworkers=14, time_cap=80 if q else 800)


def worker_init():
    H.repo()


def _spell(r, name, val):
    nm = name if r.random() < 0.5 else name.replace("_", "-")
    if r.random() < 0.2:
        nm = "".join(c if c not in "-_" else r.choice("-_") for c in nm)
    if not val:
        nm = r.choice(["no-", "no_"]) + nm
    return nm


JUNK = ["", " ", "foo", "__class__", "no-__init__", "__dict__", "Compact", "COMPACT", "compact=1", "no", "no-", "no_no_compact", "inline functions", "compactx", "xcompact", "options", "no-options", "__dataclass_fields__", "é", "pytrapic: compact"]


def _directive(r):
    k = r.randint(0, 4)
    tags = []
    for _ in range(k):
        if r.random() < 0.25:
            tags.append(r.choice(JUNK))
        else:
            n = r.choice(OPTION_NAMES)
            tags.append(_spell(r, n, r.random() < 0.6))
    sep = r.choice([", ", ",", " , ", ",  "])
    body = sep.join(tags) + (r.choice(["", ",", " "]))
    pre = r.choice(["# pytrapic: ", "#pytrapic:", "#   pytrapic:   ", "## pytrapic: ", "# note pytrapic: ", "#\tpytrapic:\t", "# pytrapic:"])
    ind = r.choice(["", "", "    ", "  ", "\t"])
    return ind + pre + body


DECOYS = [
    "x_decoy = 1  # pytrapic: {o}",
    's_decoy = "# pytrapic: {o}"',
    "pytrapic: {o}" if False else "y_decoy = 2 # not a directive pytrapic: {o}",
    '"""\ntext pytrapic: {o}\n"""',
    "z_decoy = 3 \x0c# pytrapic: {o}",
    's2_decoy = "a\u2028# pytrapic: {o}"',
]


def gen_case(task, i):
    st = task["stream"]
    r = rng(seed_env(), ID, st, i)
    if st == "generated":
        body = workload.gen_program(ID, "gen", i)[0]["src"][len(HEADER) :]
    else:
        body = BODIES[i % len(BODIES)]
    lines = body.split("\n")
    nd = r.choice([0, 1, 1, 2, 2, 3, 4, 6])
    for _ in range(nd):
        pos = r.randint(0, len(lines) - 1)
        lines.insert(pos, _directive(r))
    if r.random() < 0.5:
        for _ in range(r.randint(1, 2)):
            d = r.choice(DECOYS).format(o=_spell(r, r.choice(OPTION_NAMES), r.random() < 0.5))
            if d.startswith(('"""', "x_", "s_", "y_", "z_", "s2_")):
                lines.insert(0, d)
    src = (HEADER if r.random() < 0.9 else "") + "\n".join(lines)
    if r.random() < 0.1:
        src = src.replace("\n", "\r\n")
    base = opts_from_bits(r.randrange(256))
    if st == "modules":
        lib = HEADER + _directive(r) + "\ndef f(a):\n    db.Mode = a\n" + (_directive(r) + "\n" if r.random() < 0.5 else "")
        main = HEADER + ("\n".join(lines[:1]) + "\n" if r.random() < 0.5 and lines[0].strip().startswith("#") else "") + "from library import lib\nlib.f(d0.Setting)\nlib.f(2)\n"
        return dict(src={"": main, "lib": lib}, base=base, as_dict=r.random() < 0.3, stream=st)
    return dict(src=src, base=base, as_dict=r.random() < 0.3, stream=st)


_SEARCHES = 0


def neutralise_modules(src):
    return {k: (v if k == "" else v.replace("pytrapic:", "pytrapiX:")) for k, v in src.items()}


def neutralise(src):
    out = []
    for line in src.split("\n"):
        if line.strip().startswith("#"):
            line = line.replace("pytrapic:", "pytrapiX:")
        out.append(line)
    return "\n".join(out)


def check_case(case):
    src, base = case["src"], case["base"]
    expected = H.directive_options(src, base)
    if isinstance(src, dict):
        # only the main file's directive lines count: the library modules' ones are neutralised as well
        neutral = neutralise_modules(dict(src, **{"": neutralise(src[""])}))
    else:
        neutral = neutralise(src)
    cc, CO = H.repo()
    o1 = dict(base) if case.get("as_dict") else CO(**base)
    o2 = dict(expected) if case.get("as_dict") else CO(**expected)
    main_text = src[""] if isinstance(src, dict) else src
    cnt = dict(pairs=1, directive_lines=sum(1 for l in main_text.split("\n") if l.strip().startswith("#") and "pytrapic:" in l), options_changed=sum(1 for n in OPTION_NAMES if expected[n] != base[n]), raised=0, successes=0, errors=0)
    vio = []
    try:
        a = cc(dict(src) if isinstance(src, dict) else src, o1)
    except Exception as e:
        a = dict(raised=repr(e))
        cnt["raised"] += 1
    try:
        b = cc(dict(neutral) if isinstance(neutral, dict) else neutral, o2)
    except Exception as e:
        b = dict(raised=repr(e))
    if isinstance(a, dict) and "code" in a:
        cnt["successes"] += 1
    else:
        cnt["errors"] += 1
    if isinstance(b, dict) and isinstance(b.get("code"), str):
        # source text echoed in comments (original_code_as_comment) carries the neutralised spelling: undo it
        b = dict(b, code=b["code"].replace("pytrapiX:", "pytrapic:"))
    if isinstance(b, dict) and isinstance(b.get("error"), dict) and isinstance(b["error"].get("description"), str):
        b = dict(b, error=dict(b["error"], description=b["error"]["description"].replace("pytrapiX:", "pytrapic:")))
    if a != b:
        diff_opts = None
        global _SEARCHES
        _SEARCHES += 1
        if isinstance(a, dict) and "code" in a and _SEARCHES <= 3:
            # which option vector does the directive version actually correspond to?
            for bits in range(256):
                o = opts_from_bits(bits)
                try:
                    if cc(neutral, CO(**o)) == a:
                        diff_opts = {n: (o[n], expected[n]) for n in OPTION_NAMES if o[n] != expected[n]}
                        break
                except Exception:
                    pass
        kind = "raised" if "raised" in a else ("result-differs" if diff_opts is None else "other-options-applied")
        vio.append(dict(signature=dict(monitor="directive-differential", event=kind), triggers=_trig(src), detail=dict(expected=opts_key(expected), base=opts_key(base), applied_vs_expected=diff_opts, with_directives=str(a)[:500], neutralised=str(b)[:500])))
    res = dict(verdict="violated" if vio else "held", counters=cnt, violations=vio, features=[case.get("stream", "?")])
    if cnt["options_changed"]:
        res["key"] = sha([src, opts_key(base)])
    elif isinstance(src, dict) and any("pytrapic:" in v for k, v in src.items() if k):
        res["key"] = sha([src, opts_key(base)])
    res["sample"] = dict(directive_lines=[l for l in main_text.split("\n") if "pytrapic:" in l][:6], base=opts_key(base), expected=opts_key(expected))
    return res


def _trig(src):
    t = []
    if isinstance(src, dict):
        src = "\n".join(src.values())
    for ch, name in (("\x0c", "form_feed_before_hash"), ("\u2028", "u2028_before_hash")):
        if ch + "#" in src or ch + " #" in src:
            t.append(name)
    return t


def run_case(task, i):
    c = gen_case(task, i)
    r = check_case(c)
    if r["violations"]:
        r["case"] = c
    elif i % 200:
        r.pop("sample", None)
    return r


def finish(agg, tier):
    c = agg["counters"]
    if c.get("pairs", 0) < 1000 or c.get("options_changed", 0) < 500:
        return dict(inconclusive=f"too few pairs: {dict(c)}")
    return None
