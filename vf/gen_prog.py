"""Program generator: typed, definite-assignment-aware, register-pressure-aware.

Every construct is individually switchable (`feats`); constructs that trigger a
known defect of the pinned tree are OFF by default and are switched on one at a
time by the defect stream.
"""
import json
from functools import lru_cache

from .common import HEADER, VERIF

LOGIC_W = ["Setting", "Mode", "On", "Open", "Lock", "Activate", "Color", "Horizontal", "Vertical"]
LOGIC_IN = ["Temperature", "Pressure", "Power", "Charge", "Ratio"]  # never written by generated programs
DEVS = ["d0", "d1", "d2", "d3", "d4", "d5", "db"]
CONSTS = ["0", "1", "2", "3", "5", "10", "0.5", "0.25", "-1", "100", "7", "4", "-2", "1.5", "6", "0.75", "12", "-3.5", "20", "8"]

DEFAULT_FEATS = dict(
    # ordinary constructs
    boolops=True,
    ifexp=True,
    calls=True,
    const_index=True,
    stack=True,
    aug=True,
    math=True,
    early_return=True,
    globals_write=True,
    typed=True,
    batch=True,
    slots=True,
    foreign_stack=True,
    bitops=True,
    elifs=True,
    while_loops=True,
    for_range=True,
    enums=True,
    hashstr=True,
    sleep=True,
    nested_calls=True,
    # hazards: each is the trigger of a known finding of the pinned tree (off unless a defect stream turns it on)
    for_list=True,
    for_list_break=True,
    for_continue=True,
    break_after_stmt=True,
    break_nested_if=True,
    const_condition=True,
    for_list_nested=False,
    for_list_call=False,
    reuse_for_target=False,
    copy_assign=False,
    terminating_main=False,
    invert=False,
    const_index_ge6=False,
    ifexp_else_load=False,
    global_read_before_call=False,
    void_tail_value=False,
    tail_other_call=False,
    tail_early_return=False,
    bool_const_fold=False,
)


@lru_cache(None)
def _structs():
    d = json.loads((VERIF / "vf" / "refdata" / "structures_pinned.json").read_text())
    out = []
    for k, v in sorted(d.items()):
        lt = [x for x in v["logic"] if x in ("Setting", "On", "Mode", "Open", "Lock", "Activate", "Temperature", "Pressure", "Power", "Charge", "Ratio", "Horizontal", "Vertical")]
        named = [s for s in v["slots"] if not s.startswith("slot")]
        if len(lt) >= 3 and v.get("plural") and "Minimum" not in v["logic"] and "Maximum" not in v["logic"]:
            out.append(dict(cls=k, plural=v["plural"], logic=lt, slots=sorted(v["slots"]), named=named))
    return out


def tail_guard(body, funcs, feats):
    """Lines to append to a void function body so that the tail-call rewrite is only exercised where the pinned
    tree handles it: the rewrite applies when the last statement is a bare call of a user function; it is unsound
    (known findings) when the function also contains another call / a for-list loop, an early return, or when the
    callee returns a value.  `funcs`: {name: returns_value}."""
    import re as _re

    if not body:
        return []
    last = body[-1]
    if last.startswith("     "):
        return []  # nested deeper than the function body: not the last statement of the function
    m = _re.match(r"^(\w+)\(", last.strip())
    if not m or m.group(1) not in funcs:
        return []
    other_call = any(_re.search(r"\b" + _re.escape(n) + r"\(", l) for l in body[:-1] for n in funcs) or any(" in [" in l and l.strip().startswith("for ") for l in body)
    early_return = any(l.strip().startswith("return") for l in body[:-1])
    if (other_call and not feats.get("tail_other_call")) or (early_return and not feats.get("tail_early_return")) or (funcs[m.group(1)] and not feats.get("void_tail_value")):
        return ["    pass"]
    return []


class Fn:
    def __init__(self, name, params, ret):
        self.name = name
        self.params = params
        self.ret = ret
        self.calls = []  # names of functions this one calls (for depth limits)
        self.depth = 0
        self.writes_globals = False


class Names:
    """Identifier supplier; pools can be swapped for hostile ones (C05)."""

    def __init__(self, rng, pool=None):
        self.r = rng
        self.n = 0
        self.pool = pool or {}
        self.used = set()

    def new(self, kind):
        cands = self.pool.get(kind)
        if cands:
            for _ in range(20):
                c = self.r.choice(cands)
                if c not in self.used:
                    self.used.add(c)
                    return c
        self.n += 1
        nm = f"{kind}{self.n}"
        self.used.add(nm)
        return nm


class Gen:
    def __init__(self, rng, feats=None, names=None, max_live=4, max_funcs=3, size=10):
        self.r = rng
        self.f = dict(DEFAULT_FEATS)
        if feats:
            self.f.update(feats)
        self.names = names or Names(rng)
        self.funcs = []
        self.globals = []
        self.structs = []  # (varname, dict) typed device variables at module level
        self.batches = []  # expressions for batch objects
        self.max_live = max_live
        self.max_funcs = max_funcs
        self.size = size
        self.used = set()
        self.marker = 0
        self.max_depth = rng.choice([1, 1, 2, 2, 2])
        self._forlist = 0

    # ------------------------------------------------------------------ atoms
    def const(self):
        return self.r.choice(CONSTS)

    def input_cell(self, kind="general"):
        d = self.r.choice(DEVS[:6])
        if kind == "bool":
            return f"{d}.Error"
        if kind == "small":
            return f"{d}.Idle"
        return f"{d}.{self.r.choice(LOGIC_IN)}"

    def cell_read(self):
        self.used.add("device_read")
        c = self.r.random()
        if c < 0.5:
            return self.input_cell(self.r.choice(["general", "general", "bool", "small"]))
        if c < 0.7:
            return f"{self.r.choice(DEVS)}.{self.r.choice(LOGIC_W[:7])}"
        if c < 0.8 and self.structs and self.f["typed"]:
            v, s = self.r.choice(self.structs)
            self.used.add("typed_read")
            if self.f["slots"] and s["slots"] and self.r.random() < 0.35:
                self.used.add("slot_read")
                return f"{v}.{self.r.choice(s['slots'])}.{self.r.choice(['Occupied', 'Quantity', 'OccupantHash'])}"
            return f"{v}.{self.r.choice(s['logic'])}"
        if c < 0.92 and self.f["batch"]:
            s = self.r.choice(_structs())
            self.used.add("batch_read")
            base = s["plural"]
            if self.r.random() < 0.4:
                base += f'["{self.r.choice(["Bank1", "Some Name", "A", "x9"])}"]'
                self.used.add("named_batch_read")
            lt = self.r.choice([x for x in s["logic"] if x not in ("Minimum", "Maximum")])
            m = self.r.choice(["Average", "Sum", "Minimum", "Maximum"])
            return f"{base}.{m}.{lt}" if self.r.random() < 0.5 else f"{base}.{lt}.{m}"
        if self.f["stack"]:
            self.used.add("stack_read")
            return f"stack[{self.r.randrange(100, 108)}]"
        return self.input_cell()

    def atom(self, vs):
        c = self.r.random()
        if vs and c < 0.42:
            return self.r.choice(vs)
        if c < 0.6:
            return self.const()
        if c < 0.64 and self.f["enums"]:
            self.used.add("enum_value")
            return self.r.choice(["Color.Red", "Color.Green", "DisplayMode.Celsius", "SortingClass.Ores", "pi", "tau", "rgas"])
        if c < 0.67 and self.f["hashstr"]:
            self.used.add("hashstr")
            return self.r.choice(['HASH("O2")', 'HASH("StructureFurnace")', 'HASH("Some Name")'])
        return self.cell_read()

    def dyn(self, vs):
        """an expression guaranteed not to be a compile-time constant"""
        return self.cell_read()

    # ------------------------------------------------------------------ expressions
    def cmp(self, vs, d):
        op = self.r.choice(["<", "<=", ">", ">=", "==", "!="])
        l = self.expr(vs, d + 1, False)
        if not self._dynamic(l, vs) and not (self.f["const_condition"] and self.r.random() < 0.15):
            l = f"({l} + {self.input_cell()})"
        return f"{l} {op} {self.expr(vs, d + 1, False)}"

    def _dynamic(self, e, vs):
        if any(x in e for x in (".", "stack[")):
            # attribute access or stack read; enum members like Color.Red are constant
            for t in ("d0.", "d1.", "d2.", "d3.", "d4.", "d5.", "db.", "stack[", "s."):
                if t in e:
                    return True
        for v in vs:
            if v in e:
                return True
        return False

    def boolx(self, vs, d):
        c = self.r.random()
        if c < 0.6 or d > 2 or not self.f["boolops"]:
            return self.cmp(vs, d)
        self.used.add("boolop")
        if c < 0.8:
            return f"(not {self.boolx(vs, d + 1)})"
        op = self.r.choice(["and", "or"])
        n = self.r.choice([2, 2, 3])
        return "(" + f" {op} ".join(self.boolx(vs, d + 1) for _ in range(n)) + ")"

    def cond(self, vs, d=1):
        """an `if` test: compare, boolop, not, bare bool cell"""
        c = self.r.random()
        if c < 0.1:
            return self.input_cell("bool")
        if c < 0.18:
            return f"not {self.input_cell('bool')}"
        if c < 0.4 and self.f["boolops"]:
            op = self.r.choice(["and", "or"])
            n = self.r.choice([2, 2, 3])
            self.used.add("boolop_test")
            e = f" {op} ".join(self.boolx(vs, d + 1) for _ in range(n))
            return f"not ({e})" if self.r.random() < 0.25 else e
        if c < 0.47:
            return f"not {self.cmp(vs, d)}"
        return self.cmp(vs, d)

    def expr(self, vs, d=0, calls=True):
        c = self.r.random()
        if d > self.max_depth or c < 0.3:
            return self.atom(vs)
        if c < 0.58:
            op = self.r.choice(["+", "-", "*", "+", "-", "/", "%", "**"])
            l = self.expr(vs, d + 1, calls)
            if op == "%":
                return f"({l} % {self.r.choice(['2', '3', '5', '4', '2.5'])})"
            if op == "/":
                return f"({l} / {self.r.choice(['2', '4', '0.5', '8', '-2', '3'])})"
            if op == "**":
                self.used.add("pow")
                base = self.r.choice(vs) if vs and self.r.random() < 0.5 else self.r.choice([self.input_cell(), self.input_cell("small"), "1.5", "3", "-2"])
                return f"({base} ** {self.r.choice(['2', '3'])})"
            return f"({l} {op} {self.expr(vs, d + 1, calls)})"
        if c < 0.64 and self.f["boolops"]:
            self.used.add("bool_value")
            return f"({self.boolx(vs, d + 1)})"
        if c < 0.69:
            return f"(-{self.atom(vs)})"
        if c < 0.72 and self.f["invert"]:
            self.used.add("invert")
            return f"(~{self.input_cell('small')})"
        if c < 0.78 and self.f["math"]:
            self.used.add("math")
            f = self.r.choice(["abs", "floor", "ceil", "min", "max", "sqrt", "trunc", "round", "sin", "cos", "exp", "log", "atan", "atan2"])
            if f in ("min", "max"):
                return f"{f}({self.expr(vs, d + 1, calls)}, {self.expr(vs, d + 1, calls)})"
            if f == "atan2":
                return f"atan2({self.atom(vs)}, {self.atom(vs)})"
            if f == "sqrt":
                return f"sqrt(abs({self.expr(vs, d + 1, calls)}))"
            if f == "log":
                return f"log(abs({self.atom(vs)}) + 1)"
            if f == "exp":
                return f"exp(min({self.atom(vs)}, 5))"
            if f == "round":
                return f"round({self.atom(vs)} * 0.3)"
            return f"{f}({self.expr(vs, d + 1, calls)})"
        if c < 0.81 and self.f["bitops"]:
            self.used.add("bitop")
            a = self.input_cell("small")
            k = self.r.random()
            if k < 0.3:
                return f"({a} << {self.r.choice(['1', '2', '3'])})"
            if k < 0.5:
                return f"({a} >> 1)"
            if k < 0.75:
                return f"({a} & {self.r.choice(['1', '3', '6'])})"
            return f"({a} ^ {self.r.choice(['1', '5'])})"
        if c < 0.86 and self.f["ifexp"]:
            self.used.add("ifexp")
            a = self.expr(vs, d + 1, False)
            b = self.const() if not self.f["ifexp_else_load"] else self.cell_read()
            if not self.f["ifexp_else_load"] and vs and self.r.random() < 0.5:
                b = self.r.choice(vs)
            return f"({a} if {self.cmp(vs, d + 1)} else {b})"
        if c < 0.9 and self.f["const_index"]:
            self.used.add("const_index")
            hi = 9 if self.f["const_index_ge6"] else 5
            n = self.r.randint(6, 9) if self.f["const_index_ge6"] else self.r.randint(1, hi)
            arr = ", ".join(self.const() for _ in range(n))
            dev = self.r.choice(DEVS[:6])
            idx = f"{dev}.Error" if n == 2 else f"({dev}.Idle % {n})"
            if n == 1:
                idx = f"({dev}.Idle * 0)"
            return f"[{arr}][{idx}]"
        if calls and self.f["calls"] and (self._forlist == 0 or self.f["for_list_call"]):
            # a function that writes globals is only called as a statement: in `g + f()` python reads g
            # before the call, the emitted code after it (known finding, switch global_read_before_call)
            fs = [f for f in self.funcs if f.ret and f.depth < 3 and (not f.writes_globals or self.f["global_read_before_call"])]
            if fs:
                f = self.r.choice(fs)
                self.used.add("call_in_expr")
                self._cur_calls.append(f)
                return f"{f.name}({self.args(vs, f)})"
        return self.atom(vs)

    def args(self, vs, f):
        out = []
        for _ in f.params:
            e = self.expr(vs, 2, self.f["nested_calls"] and self.r.random() < 0.2)
            if not self.f["copy_assign"] and e in vs:
                e = f"({e} + 0.5)"
            out.append(e)
        return ", ".join(out)

    def nocopy(self, e, vs):
        if not self.f["copy_assign"] and e.strip("()") in vs:
            return f"({e} + 1)"
        if "." in e and e.replace(".", "").isalnum() and e.split(".")[0] in ("Color", "DisplayMode", "SortingClass"):
            # a bare enum member assigned to a variable turns the name into an alias of the enum (known finding)
            return f"({e} + 0)"
        return e

    # ------------------------------------------------------------------ statements
    def effect_stmt(self, vs, pad):
        c = self.r.random()
        if c < 0.05 and self.f["hashstr"]:
            self.used.add("str_value")
            return f"{pad}{self.r.choice(DEVS)}.Setting = {self.r.choice(['STR(\"Day\")', 'STR(\"ab\")', 'STR(\"Night\")'])}"
        if c < 0.55:
            return f"{pad}{self.r.choice(DEVS)}.{self.r.choice(LOGIC_W)} = {self.expr(vs)}"
        if c < 0.65 and self.structs and self.f["typed"]:
            v, s = self.r.choice(self.structs)
            w = [x for x in s["logic"] if x in LOGIC_W]
            if w:
                self.used.add("typed_write")
                return f"{pad}{v}.{self.r.choice(w)} = {self.expr(vs)}"
        if c < 0.78 and self.f["batch"]:
            s = self.r.choice(_structs())
            w = [x for x in s["logic"] if x in LOGIC_W]
            if w:
                self.used.add("batch_write")
                base = s["plural"]
                if self.r.random() < 0.4:
                    base += f'["{self.r.choice(["Bank1", "Some Name", "A"])}"]'
                    self.used.add("named_batch_write")
                return f"{pad}{base}.{self.r.choice(w)} = {self.expr(vs)}"
        if c < 0.86 and self.f["foreign_stack"]:
            self.used.add("foreign_stack_write")
            if self.r.random() < 0.3:
                return f"{pad}Stack(ref_id={self.r.choice(['1234', '9045', '77'])})[{self.r.randrange(0, 6)}] = {self.expr(vs)}"
            return f"{pad}Stack({self.r.choice(DEVS[:6])})[{self.r.randrange(0, 6)}] = {self.expr(vs)}"
        if c < 0.92 and self.structs and self.f["slots"]:
            v, s = self.r.choice(self.structs)
            if s["slots"]:
                self.used.add("slot_write")
                return f"{pad}{v}.{self.r.choice(s['slots'])}.{self.r.choice(['Quantity', 'Occupied'])} = {self.expr(vs)}"
        return f"{pad}db.Setting = {self.expr(vs)}"

    def block(self, vs, ind, depth, loop, fn, budget, assignable, ifd=0):
        """vs: readable numeric names; assignable: names that may be re-assigned here.
        ifd: number of `if` levels between this block and the innermost enclosing loop."""
        out = []
        vs = list(vs)
        assignable = list(assignable)
        pad = "    " * ind
        n = self.r.randint(1, 4)
        for _ in range(n):
            if budget[0] <= 0:
                break
            budget[0] -= 1
            c = self.r.random()
            if c < 0.22:
                if assignable and self.r.random() < 0.5:
                    v = self.r.choice(assignable)
                    if self.f["aug"] and self.r.random() < 0.5:
                        self.used.add("augassign")
                        out.append(f"{pad}{v} {self.r.choice(['+=', '-=', '*=', '/='])} {self.nocopy(self.expr(vs), vs) if self.r.random() < 0.8 else self.r.choice(['2', '4'])}")
                    else:
                        out.append(f"{pad}{v} = {self.nocopy(self.expr(vs), vs)}")
                elif len(vs) < self.max_live:
                    v = self.names.new("v")
                    out.append(f"{pad}{v} = {self.nocopy(self.expr(vs), vs)}")
                    vs.append(v)
                    assignable.append(v)
            elif c < 0.45:
                out.append(self.effect_stmt(vs, pad))
            elif c < 0.50 and self.f["stack"]:
                self.used.add("stack_write")
                out.append(f"{pad}stack[{self.r.randrange(100, 108)}] = {self.expr(vs)}")
            elif c < 0.63 and depth < 2:
                self.used.add("if")
                out.append(f"{pad}if {self.cond(vs)}:")
                out += self.block(vs, ind + 1, depth + 1, loop, fn, budget, assignable, ifd + 1)
                k = self.r.random()
                if k < 0.2 and self.f["elifs"]:
                    self.used.add("elif")
                    out.append(f"{pad}elif {self.cmp(vs, 1)}:")
                    out += self.block(vs, ind + 1, depth + 1, loop, fn, budget, assignable, ifd + 1)
                if k < 0.5:
                    self.used.add("else")
                    out.append(f"{pad}else:")
                    out += self.block(vs, ind + 1, depth + 1, loop, fn, budget, assignable, ifd + 1)
            elif c < 0.71 and depth < 2 and self.f["for_range"]:
                self.used.add("for_range")
                i = self.names.new("i")
                if self.f["reuse_for_target"] and self._for_targets and self.r.random() < 0.7:
                    i = self.r.choice(self._for_targets)
                    self.used.add("reuse_for_target")
                self._for_targets.append(i)
                k = self.r.random()
                if k < 0.5:
                    rng = self.r.choice(["3", "4", "2"])
                elif k < 0.7:
                    rng = f"{self.r.choice(['1', '2'])}, {self.r.choice(['4', '5'])}"
                elif k < 0.85:
                    rng = f"{self.r.choice(['6', '5'])}, {self.r.choice(['0', '1'])}, {self.r.choice(['-1', '-2'])}"
                    self.used.add("for_range_negative_step")
                elif k < 0.89:
                    rng = f"{self.r.choice(DEVS[:6])}.Idle % 4"
                    self.used.add("for_range_dynamic_bound")
                elif k < 0.93:
                    # start / stop / step given by names that hold a constant (assigned once)
                    c1, c2 = self.names.new("n"), self.names.new("n")
                    up = self.r.random() < 0.5
                    out.append(f"{pad}{c1} = {self.r.choice(['2', '1']) if up else self.r.choice(['-1', '-2'])}")
                    out.append(f"{pad}{c2} = {self.r.choice(['5', '6'])}")
                    rng = f"0, {c2}, {c1}" if up else f"{c2}, 0, {c1}"
                    self.used.add("for_range_named_constants")
                else:
                    # bound (and sometimes step) held in a local whose last textual use is the loop header: the
                    # emitted test and increment read it on every iteration
                    n = self.names.new("n")
                    out.append(f"{pad}{n} = ({self.r.choice(DEVS[:6])}.Idle % 4) + 1")
                    rng = n
                    kk = self.r.random()
                    if kk < 0.3:
                        rng = f"1, {n}"
                    elif kk < 0.5:
                        st_ = self.names.new("n")
                        out.append(f"{pad}{st_} = ({self.r.choice(DEVS[:6])}.Error) + 1")
                        rng = f"0, {n}, {st_}"
                    self.used.add("for_range_local_bound")
                out.append(f"{pad}for {i} in range({rng}):")
                out += self.block(vs + [i], ind + 1, depth + 1, "for", fn, budget, assignable)
            elif c < 0.78 and depth < 2 and self.f["while_loops"]:
                self.used.add("while")
                w = self.names.new("w")
                out.append(f"{pad}{w} = 0")
                out.append(f"{pad}while {w} < {self.r.choice(['2', '3'])}:")
                out.append(f"{pad}    {w} += 1")
                out += self.block(vs + [w], ind + 1, depth + 1, "while", fn, budget, assignable)
            elif c < 0.81 and depth < 2 and self.f["for_list"] and (self._forlist == 0 or self.f["for_list_nested"]):
                self.used.add("for_list")
                if self._forlist:
                    self.used.add("for_list_nested")
                i = self.names.new("e")
                out.append(f"{pad}for {i} in [{', '.join(self.const() for _ in range(self.r.randint(1, 4)))}]:")
                self._forlist += 1
                out += self.block(vs + [i], ind + 1, depth + 1, "forlist", fn, budget, assignable)
                self._forlist -= 1
            elif c < 0.88 and self.funcs and self.f["calls"] and (self._forlist == 0 or self.f["for_list_call"]):
                f = self.r.choice([g for g in self.funcs if g.depth < 3] or self.funcs)
                self._cur_calls.append(f)
                self.used.add("call_stmt")
                if self._forlist:
                    self.used.add("for_list_call")
                args = self.args(vs, f)
                if f.ret and self.r.random() < 0.7 and len(vs) < self.max_live:
                    v = self.names.new("v")
                    out.append(f"{pad}{v} = {f.name}({args})")
                    vs.append(v)
                    assignable.append(v)
                else:
                    out.append(f"{pad}{f.name}({args})")
            elif c < 0.92 and loop in ("while", "for") or (c < 0.92 and loop == "forlist" and self.f["for_list_break"]):
                kw = self.r.choice(["break", "continue"])
                if self.r.random() < 0.12:
                    # a loop that is compiled away (constant-false test) right before: the break / continue below still
                    # belongs to the enclosing loop
                    out.append(f"{pad}while {self.r.choice(['False', '0'])}:")
                    out.append(f"{pad}    {self.r.choice(DEVS[:6])}.Setting = 1")
                    self.used.add("dead_while_before_exit")
                if kw == "continue" and loop == "for" and not self.f["for_continue"]:
                    kw = "break"
                if kw == "break" and ifd > 0 and not self.f["break_nested_if"]:
                    kw = "continue"
                    if loop == "for" and not self.f["for_continue"]:
                        out.append(f"{pad}yield_()")
                        continue
                if loop == "forlist":
                    self.used.add("for_list_" + kw)
                self.used.add(kw)
                if kw == "continue" and loop == "for":
                    self.used.add("for_continue")
                out.append(f"{pad}if {self.cmp(vs, 1)}:")
                if self.f["break_after_stmt"] and self.r.random() < 0.4:
                    self.used.add(kw + "_after_stmt")
                    out.append(self.effect_stmt(vs, pad + "    "))
                if self.f["break_nested_if"] and self.r.random() < 0.25:
                    self.used.add(kw + "_nested_if")
                    out.append(f"{pad}    if {self.cmp(vs, 1)}:")
                    out.append(f"{pad}        {kw}")
                    if self.r.random() < 0.3:
                        out.append(f"{pad}    else:")
                        out.append(self.effect_stmt(vs, pad + "        "))
                else:
                    out.append(f"{pad}    {kw}")
            elif c < 0.95 and fn is not None and depth > 0 and self.f["early_return"]:
                self.used.add("early_return")
                out.append(f"{pad}if {self.cmp(vs, 1)}:")
                out.append(f"{pad}    return {self.expr(vs, 1, False) if fn.ret else ''}".rstrip())
            else:
                k = self.r.random()
                if k < 0.7 or not self.f["sleep"]:
                    out.append(f"{pad}yield_()")
                else:
                    out.append(f"{pad}sleep({self.r.choice(['1', '0.5', '2'])})")
                    self.used.add("sleep")
        if not out:
            out.append(pad + "pass")
        return out

    # ------------------------------------------------------------------ program
    def program(self):
        lines = []
        gl = []
        self._for_targets = []
        self._cur_calls = []
        if self.f["typed"]:
            for _ in range(self.r.randint(0, 2)):
                s = self.r.choice(_structs())
                v = self.names.new("s")
                lines.append(f"{v} = {s['cls']}({self.r.choice(DEVS[:6])})")
                self.structs.append((v, s))
                self.used.add("typed_decl")
        for _ in range(self.r.randint(0, 3)):
            v = self.names.new("g")
            lines.append(f"{v} = ({self.expr(gl, 1, False)} + {self.input_cell()})")
            gl.append(v)
        for _ in range(self.r.randint(0, self.max_funcs)):
            fn = self.names.new("f")
            params = [self.names.new("a") for _ in range(self.r.randint(0, 3))]
            ret = self.r.random() < 0.6
            writes = [g for g in gl if self.r.random() < 0.3] if self.f["globals_write"] else []
            f = Fn(fn, params, ret)
            self._cur_calls = []
            lines.append(f"def {fn}({', '.join(params)}):")
            if writes:
                lines.append(f"    global {', '.join(writes)}")
                self.used.add("global_write")
            assignable = list(writes) + [p for p in params if self.r.random() < 0.3]
            body = self.block(params + gl, 1, 0, None, f, [self.r.randint(2, 7)], assignable)
            lines += body
            if ret and self.f.get("tail_if_return", True) and self.r.random() < 0.3:
                # the result is returned from the arms of an if/else that ends the function (no statement follows)
                self.used.add("tail_if_return")
                vs_ = params + gl
                lines.append(f"    if {self.cmp(vs_, 1)}:")
                if self.r.random() < 0.3:
                    lines.append(f"        if {self.cmp(vs_, 1)}:")
                    lines.append(f"            return {self.expr(vs_, 1, False)}")
                    lines.append("        else:")
                    lines.append(self.effect_stmt(vs_, "            "))
                    lines.append(f"            return {self.expr(vs_, 1, False)}")
                else:
                    lines.append(f"        return {self.expr(vs_, 1, False)}")
                lines.append("    else:")
                if self.r.random() < 0.4:
                    lines.append(self.effect_stmt(vs_, "        "))
                lines.append(f"        return {self.expr(vs_, 1, False)}")
            elif ret:
                lines.append(f"    return {self.expr(params + gl, 1, False)}")
            if not ret:
                lines += tail_guard(body, {g.name: g.ret for g in self.funcs}, self.f)
            f.depth = 1 + max([g.depth for g in self._cur_calls], default=0)
            f.writes_globals = bool(writes) or any(g.writes_globals for g in self._cur_calls)
            f.calls = [g.name for g in self._cur_calls]
            self.funcs.append(f)
        self._cur_calls = []
        terminating = self.f["terminating_main"] and self.r.random() < 0.6
        if terminating:
            self.used.add("terminating_main")
            lines += self.block(gl, 0, 0, None, None, [self.size], gl)
        else:
            lines += self.block(gl, 0, 0, None, None, [3], gl)
            lines.append("while True:")
            lines.append("    yield_()")
            lines += self.block(gl, 1, 0, None, None, [self.size], gl)
        src = HEADER + "\n".join(lines) + "\n"
        meta = dict(
            funcs=[dict(name=f.name, label=f.name.replace("_", "."), nparams=len(f.params), ret=f.ret, calls=f.calls) for f in self.funcs],
            features=sorted(self.used),
            terminating=terminating,
        )
        return dict(src=src, meta=meta)
