"""Shape families aimed at specific mechanisms: echo/call-graph, exits, register pressure, layout mutations,
and systematic control-flow skeletons with a unique marker write at every program point."""
import itertools

from .common import HEADER

CELLS = [f"d{d}.{lt}" for lt in ("Setting", "Mode", "On", "Open", "Lock", "Activate", "Color", "Horizontal", "Vertical") for d in range(6)]
IN_GEN = [f"d{d}.{lt}" for d in range(6) for lt in ("Temperature", "Pressure", "Power", "Charge", "Ratio")]
IN_BOOL = [f"d{d}.Error" for d in range(6)]
IN_SMALL = [f"d{d}.Idle" for d in range(6)]


class _Cells:
    def __init__(self, r):
        self.pool = list(CELLS)
        r.shuffle(self.pool)
        self.i = 0

    def next(self):
        c = self.pool[self.i % len(self.pool)]
        self.i += 1
        return c


def _dyn(r):
    k = r.random()
    if k < 0.6:
        return r.choice(IN_GEN)
    if k < 0.8:
        return r.choice(IN_SMALL)
    return f"({r.choice(IN_GEN)} + {r.choice(['1', '0.5', '2', '10'])})"


# ------------------------------------------------------------------------------ echo / call graph
def echo_program(r, hazards=None):
    """Functions that write every parameter, in order, to distinct device cells and return a value built from
    them; callers write every result to distinct cells.  Call graph: each function may call earlier ones."""
    hz = hazards or {}
    k0 = r.random()
    if k0 < 0.15:
        return suffix_program(r)
    if k0 < 0.3:
        return once_called_program(r)
    cells = _Cells(r)
    lines = []
    funcs = []  # (name, nparams, ret, depth)
    nf = r.randint(1, 4)
    # identifier schemes: plain, or helper names that END with the name of a later function (pre_tick / tick): label
    # handling that matches '<name>end' by suffix must not confuse the two
    scheme = None
    if r.random() < 0.35:
        base = r.sample(["tick", "update", "run", "step"], 2)
        scheme = ([f"pre_{base[0]}", base[0], f"do_{base[1]}", base[1]])[:nf] if nf >= 2 else None
    for k in range(nf):
        name = scheme[k] if scheme else f"fn{k}"
        npar = r.choice([0, 1, 1, 2, 2, 3, 3, 4, 5, 6])
        ret = r.random() < 0.7
        params = [f"p{k}_{j}" for j in range(npar)]
        body = []
        for p in params:
            body.append(f"    {cells.next()} = {p}")
        depth = 1
        callee_lines = []
        if funcs and r.random() < 0.75:
            for _ in range(r.randint(1, 2)):
                g = r.choice([f for f in funcs if f[3] < 3] or funcs)
                args = ", ".join(_arg(r, params) for _ in range(g[1]))
                depth = max(depth, g[3] + 1)
                if g[2] and r.random() < 0.7:
                    v = f"t{k}_{len(callee_lines)}"
                    callee_lines.append(f"    {v} = {g[0]}({args})")
                    callee_lines.append(f"    {cells.next()} = {v}")
                    params_plus = params + [v]
                else:
                    callee_lines.append(f"    {g[0]}({args})")
        pos = r.randint(0, len(body))
        body[pos:pos] = callee_lines
        if r.random() < 0.4:
            # early exit
            cond = f"{r.choice(IN_BOOL)}" if r.random() < 0.5 else f"{r.choice(IN_SMALL)} > {r.randint(1, 6)}"
            ex = ["    if " + cond + ":"]
            if r.random() < 0.5:
                ex.append(f"        {cells.next()} = {r.randint(100, 999)}")
            ex.append("        return" + (f" {_ret_expr(r, params)}" if ret else ""))
            pos = r.randint(0, len(body))
            body[pos:pos] = ex
        if r.random() < 0.25:
            i = f"i{k}"
            lp = [f"    for {i} in range({r.randint(1, 3)}):", f"        {cells.next()} = {i}"]
            if r.random() < 0.5:
                lp += [f"        if {r.choice(IN_BOOL)}:", "            return" + (f" {_ret_expr(r, params)}" if ret else "")]
            body += lp
        if ret:
            if funcs and r.random() < 0.3:
                g = r.choice([f for f in funcs if f[2]] or [None])
                if g:
                    body.append(f"    return {g[0]}({', '.join(_arg(r, params) for _ in range(g[1]))})" + (f" + {r.randint(1, 9)}" if r.random() < 0.5 else ""))
                    depth = max(depth, g[3] + 1)
                else:
                    body.append(f"    return {_ret_expr(r, params)}")
            else:
                body.append(f"    return {_ret_expr(r, params)}")
        elif not body:
            body.append(f"    {cells.next()} = {r.randint(100, 999)}")
        if not ret:
            from .gen_prog import tail_guard

            body += tail_guard(body, {f[0]: f[2] for f in funcs}, hz)
        lines.append(f"def {name}({', '.join(params)}):")
        lines += body
        funcs.append((name, npar, ret, depth))
    main = ["while True:", "    yield_()"]
    n_calls = r.randint(2, 5)
    for c in range(n_calls):
        g = r.choice(funcs)
        args = ", ".join(_arg(r, []) for _ in range(g[1]))
        k = r.random()
        if g[2] and k < 0.35:
            main.append(f"    m{c} = {g[0]}({args})")
            main.append(f"    {cells.next()} = m{c}")
        elif g[2] and k < 0.55:
            main.append(f"    {cells.next()} = {g[0]}({args}) + {r.randint(1, 5)}")
        elif g[2] and k < 0.7:
            h = r.choice(funcs)
            if h[1] >= 1 and h[2]:
                parts = [_arg(r, []) for _ in range(h[1] - 1)]
                parts.insert(r.randint(0, len(parts)), f"{g[0]}({args})")  # the inner call in any argument position
                main.append(f"    {cells.next()} = {h[0]}({', '.join(parts)})")
            else:
                main.append(f"    {cells.next()} = {g[0]}({args})")
        elif k < 0.85:
            main.append(f"    {g[0]}({args})")
        else:
            main.append(f"    for q{c} in range({r.randint(1, 3)}):")
            if g[2]:
                main.append(f"        {cells.next()} = {g[0]}({args})")
            else:
                main.append(f"        {g[0]}({args})")
    return HEADER + "\n".join(lines + main) + "\n"


def once_called_program(r):
    """Functions with exactly one call site (candidates for inlining) next to functions called several times, with
    every mix of parameters / `global` / result / early return, and names in random sort order: whatever decides
    'inline or subroutine' must agree with whatever decides 'emit a return'."""
    cells = _Cells(r)
    names = r.sample(["accumulate", "report", "blend", "zeta", "mid", "apply_it"], r.randint(2, 4))
    L = [f"total = {_dyn(r)} + 1"]
    funcs = []
    for k, nm in enumerate(names):
        npar = r.choice([0, 1, 1, 2])
        ps = [f"p{k}_{j}" for j in range(npar)]
        glob = r.random() < 0.6
        ret = r.random() < 0.4
        body = []
        if glob:
            body.append("    global total")
            body.append(f"    total = total + {ps[0] if ps else r.randint(1, 5)}")
        for p in ps:
            body.append(f"    {cells.next()} = {p}")
        if r.random() < 0.3:
            body += [f"    if {r.choice(IN_BOOL)}:", "        return" + (" 7" if ret else "")]
        if funcs and r.random() < 0.4:
            g = r.choice(funcs)
            body.append(f"    {g[0]}({', '.join(_arg(r, ps) for _ in range(g[1]))})")
        body.append(f"    {cells.next()} = {'total' if glob else r.randint(100, 199)}")
        if ret:
            body.append(f"    return {ps[-1] + ' * 2' if ps else '3'}")
        L.append(f"def {nm}({', '.join(ps)}):")
        L += body
        funcs.append((nm, npar, ret))
    if r.random() < 0.4:
        # the module-level initialisation of the global stands below the functions that assign it
        L = L[1:] + [L[0]]
    main = ["while True:", "    yield_()"]
    calls = []
    once = set(r.sample(range(len(funcs)), r.randint(1, max(1, len(funcs) - 1))))
    for k, (nm, npar, ret) in enumerate(funcs):
        for _ in range(1 if k in once else r.randint(2, 3)):
            c = f"{nm}({', '.join(_arg(r, []) for _ in range(npar))})"
            calls.append(f"    {cells.next()} = {c}" if ret and r.random() < 0.6 else f"    {c}")
    r.shuffle(calls)
    if r.random() < 0.35:
        # a function called once that hands its (unmodified) parameter back; the caller then changes the variable it
        # passed in while the result is still needed
        L += ["def passthru(p):", f"    {cells.next()} = p", "    return p"]
        calls += [f"    lv = {_dyn(r)}", "    before = passthru(lv)", f"    lv = lv + {r.randint(2, 20)}", f"    {cells.next()} = before", f"    {cells.next()} = lv"]
    tail = [f"    {cells.next()} = total"] if r.random() < 0.6 else [f"    {cells.next()} = ({_dyn(r)} + 1) * 2"]
    return HEADER + "\n".join(L + main + calls + tail) + "\n"


def suffix_program(r, terminating=False):
    """A helper that is called once (inlined with its labels when inlining is on) inside a host whose name is a
    suffix of the helper's name (pre_tick / tick, substep / step), next to calls of a function that stays a
    subroutine: '<host>end' must not be confused with '<helper>end'."""
    cells = _Cells(r)
    base = r.choice(["tick", "update", "run", "step", "check"])
    pre = r.choice(["pre_", "do_", "sub", "x_", "re"]) + base
    hlp = r.choice(["helper", "fn0", "emit"])
    hret = r.random() < 0.4
    L = [f"def {hlp}(v):", f"    {cells.next()} = v"]
    if hret:
        L.append("    return v + 1")
    npre = r.randint(0, 2)
    pp = [f"a{j}" for j in range(npre)]
    L.append(f"def {pre}({', '.join(pp)}):")
    L.append(f"    {cells.next()} = {pp[0] if pp else r.randint(1, 9)}")
    if r.random() < 0.5:
        L += [f"    if {r.choice(IN_BOOL)}:", "        return"]
        L.append(f"    {cells.next()} = {pp[-1] if pp else r.randint(10, 19)}")
    if r.random() < 0.3:
        L.append(f"    {hlp}({r.randint(20, 29)})")
    ret = r.random() < 0.5
    L.append(f"def {base}(v):")
    parts = [[f"    {pre}({', '.join(_arg(r, ['v']) for _ in pp)})"], [f"    {cells.next()} = v"]]
    for _ in range(r.randint(1, 2)):
        parts.append([f"    {cells.next()} = {hlp}({_arg(r, ['v'])})"] if hret and r.random() < 0.6 else [f"    {hlp}({_arg(r, ['v'])})"])
    r.shuffle(parts)
    if r.random() < 0.3:
        parts.insert(r.randint(0, len(parts)), [f"    if {r.choice(IN_BOOL)}:", "        return" + (" 77" if ret else "")])
    for q in parts:
        L += q
    if ret:
        L.append("    return v * 2")
    main = ["while True:", "    yield_()"]
    calls = [f"    {base}({_arg(r, [])})" if not ret or r.random() < 0.5 else f"    {cells.next()} = {base}({_arg(r, [])})" for _ in range(r.randint(2, 3))]
    calls += [f"    {hlp}({r.randint(1, 9)})" for _ in range(r.randint(0, 2))]
    r.shuffle(calls)
    if terminating:
        return HEADER + "\n".join(L + [c[4:] for c in calls]) + "\n"
    return HEADER + "\n".join(L + main + calls) + "\n"


def _arg(r, params):
    k = r.random()
    if params and k < 0.35:
        return f"({r.choice(params)} + {r.choice(['1', '2', '0.5'])})"
    if k < 0.6:
        return str(r.choice([1, 2, 3, 5, 7, 11, 13, 0.5, -1, 20]))
    return _dyn(r)


def _ret_expr(r, params):
    if not params:
        return r.choice([str(r.randint(1, 50)), _dyn(r)])
    if len(params) == 1:
        return f"({params[0]} * 2 + 1)"
    return "(" + " + ".join(f"{p} * {k + 2}" for k, p in enumerate(params)) + ")"


# ------------------------------------------------------------------------------ tail-call chains
def tail_program(r):
    """Chains of functions whose last statement is a call of the previous one (the only shape the tail-call rewrite
    supports on the pinned tree: no other call, no early return, void -> void or value via `return`), with call
    counts chosen so that some callees have a single call site (inlined when inlining is on) and others several."""
    cells = _Cells(r)
    n = r.randint(2, 4)
    L = []
    funcs = []
    for k in range(n):
        npar = r.randint(0, 3)
        ps = [f"t{k}_{j}" for j in range(npar)]
        body = [f"    {cells.next()} = {p}" for p in ps] or [f"    {cells.next()} = {r.randint(100, 999)}"]
        if r.random() < 0.4:
            body.append(f"    {cells.next()} = {_dyn(r)}")
        if r.random() < 0.6:
            # register locals in the (possibly tail-called) function
            body.append(f"    lx{k} = {_dyn(r)} * 2")
            body.append(f"    ly{k} = lx{k} + {r.randint(1, 9)}")
            body.append(f"    {cells.next()} = ly{k} - lx{k}")
        if funcs and r.random() < 0.85:
            g = funcs[-1] if r.random() < 0.7 else r.choice(funcs)
            args = ", ".join(_arg(r, ps) for _ in range(g[1]))
            body.append(f"    {g[0]}({args})")
        L.append(f"def tc{k}({', '.join(ps)}):")
        L += body
        funcs.append((f"tc{k}", npar))
    if r.random() < 0.6:
        # a wrapper that keeps a value live across an ordinary call into the chain
        g = funcs[-1]
        L.append("def wrap(w0):")
        L.append(f"    keep = w0 * 3 + {r.randint(1, 9)}")
        L.append(f"    {g[0]}({', '.join(_arg(r, ['w0']) for _ in range(g[1]))})")
        L.append(f"    {cells.next()} = keep")
        L.append(f"    {cells.next()} = w0")
        funcs.append(("wrap", 1))
        n += 1
    M = ["while True:", "    yield_()"]
    keep_main = r.random() < 0.6
    if keep_main:
        M.append(f"    mk = {_dyn(r)} + 1")
    for k, (f, npar) in enumerate(funcs):
        reps = r.choice([0, 0, 1, 1, 2]) if k < n - 1 else r.choice([1, 2])
        for _ in range(reps):
            M.append(f"    {f}({', '.join(_arg(r, []) for _ in range(npar))})")
    if keep_main:
        M.append(f"    {cells.next()} = mk")
    return HEADER + "\n".join(L + M) + "\n"


# ------------------------------------------------------------------------------ register pressure
def pressure_program(r, k=None, where=None):
    """k simultaneously live values, each read back after all have been assigned (and after calls / loops)."""
    k = k or r.randint(2, 18)
    where = where or r.choice(["main", "main", "function", "loop", "across_call", "nested_loops", "long_expr", "dead_update", "dead_update"])
    if where == "dead_update":
        return dead_update_program(r, k)
    cells = _Cells(r)
    L = []
    if where == "long_expr":
        terms = [f"({_dyn(r)} * {j + 1})" for j in range(k)]
        expr = terms[0]
        for t in terms[1:]:
            expr = f"({expr} {r.choice(['+', '-', '*'])} {t})" if r.random() < 0.5 else f"({t} {r.choice(['+', '-'])} {expr})"
        L += ["while True:", "    yield_()", f"    {cells.next()} = {expr}"]
        return HEADER + "\n".join(L) + "\n", dict(k=k, where=where)
    helper = ["def h(a):", f"    {cells.next()} = a", "    b = a + 1", "    c = b * 2", f"    {cells.next()} = c", "    return c - a"]
    if where == "across_call":
        L += helper
    ind = "    "
    body = []
    vs = [f"x{j}" for j in range(k)]
    for j, v in enumerate(vs):
        body.append(f"{v} = {_dyn(r)} + {j}")
    if where == "across_call":
        body.append(f"{cells.next()} = h({_dyn(r)})")
        body.append(f"{cells.next()} = h({vs[0]} + 1)")
    if where in ("loop", "nested_loops"):
        body.append(f"for i in range({r.randint(2, 3)}):")
        body.append(f"    {vs[0]} = {vs[0]} + i")
        if where == "nested_loops":
            body.append(f"    for j in range(2):")
            body.append(f"        {vs[-1]} = {vs[-1]} + j + i")
            body.append(f"        {cells.next()} = {vs[-1]}")
        body.append(f"    {cells.next()} = {vs[0]}")
    for v in vs:
        body.append(f"{cells.next()} = {v}")
    if where == "function":
        L += ["def work(s):"] + [ind + b for b in body] + ["    return s"]
        L += ["while True:", "    yield_()", f"    {cells.next()} = work({_dyn(r)})", f"    {cells.next()} = work(2)"]
    else:
        L += ["while True:", "    yield_()"] + [ind + b for b in body]
    return HEADER + "\n".join(L) + "\n", dict(k=k, where=where)


def dead_update_program(r, k):
    """function-local values that are written again after their last read (counters, accumulators that are no
    longer used) while younger values are live: a lifetime that ends at the last read hands the register on"""
    cells = _Cells(r)
    k = max(2, min(k, 8))
    B = []
    olds = [f"c{j}" for j in range(k)]
    for j, v in enumerate(olds):
        B.append(f"{v} = {_dyn(r)} + {j}")
    for v in olds:
        B.append(f"{cells.next()} = {v}")
    news = [f"n{j}" for j in range(k)]
    for j, v in enumerate(news):
        B.append(f"{v} = {_dyn(r)} * {j + 2}")
        if r.random() < 0.7:
            o = olds[j % len(olds)]
            B.append(r.choice([f"{o} += 1", f"{o} = {o} * 2", f"{o} -= {news[j]}"]))
    if r.random() < 0.5:
        B.append(f"for q in range({r.randint(1, 3)}):")
        B.append(f"    {olds[0]} += q")
        B.append(f"    {cells.next()} = {news[0]} + q")
    for v in news:
        B.append(f"{cells.next()} = {v}")
    L = ["def work(s0):"] + ["    " + b for b in B] + ["    return s0"]
    L += ["while True:", "    yield_()", f"    {cells.next()} = work({_dyn(r)})", f"    {cells.next()} = work(2)"]
    return HEADER + "\n".join(L) + "\n", dict(k=k, where="dead_update")


# ------------------------------------------------------------------------------ layout mutations
def layout_mutation(src, r):
    """Semantics-preserving for Python, hostile for a line-number-based allocator."""
    lines = src.split("\n")
    out = []
    i = 0
    while i < len(lines):
        l = lines[i]
        k = r.random()
        st = l.strip()
        ind = l[: len(l) - len(l.lstrip())]
        simple = st and not st.endswith(":") and not st.startswith(("def ", "if ", "elif ", "else", "for ", "while ", "return", "global", "from ", "import ", "#", "break", "continue", "pass"))
        if simple and k < 0.15 and i + 1 < len(lines):
            nxt = lines[i + 1]
            nst = nxt.strip()
            nind = nxt[: len(nxt) - len(nxt.lstrip())]
            nsimple = nst and not nst.endswith(":") and not nst.startswith(("def ", "if ", "elif ", "else", "for ", "while ", "return", "global", "from ", "import ", "#", "break", "continue", "pass"))
            if nsimple and nind == ind:
                out.append(f"{l}; {nst}")
                i += 2
                continue
        if simple and k < 0.3 and " = " in st and "(" in st:
            # split an expression over lines inside parentheses
            lhs, rhs = st.split(" = ", 1)
            if rhs.count("(") == rhs.count(")") and " + " in rhs:
                a, b = rhs.rsplit(" + ", 1)
                if a.count("(") == a.count(")"):
                    out.append(f"{ind}{lhs} = ({a}")
                    out.append(f"{ind}        + {b})")
                    i += 1
                    continue
        if k > 0.9:
            out.append(ind + "# comment")
        if k > 0.95:
            out.append("")
        out.append(l)
        i += 1
    return "\n".join(out)


# ------------------------------------------------------------------------------ skeletons with markers
class _Sk:
    def __init__(self):
        self.m = 0
        self.cond = 0

    def mark(self):
        self.m += 1
        return f"db.Setting = {self.m}"

    def c(self):
        self.cond += 1
        k = self.cond
        d = k % 6
        return [f"d{d}.Error", f"d{d}.Idle > 3", f"not d{d}.Error", f"d{d}.Idle < 5 and d{(d + 1) % 6}.Error", f"d{d}.Power > d{(d + 2) % 6}.Power"][k % 5]


CONSTRUCTS = ["if", "ifelse", "ifelif", "while", "forrange", "forlist", "call"]
EXITS = ["fall", "break", "continue", "return"]


def _body(sk, shape, depth, in_loop, in_func, ind, out, forlist):
    """shape: nested tuple (construct, exit-or-inner, ...)"""
    pad = "    " * ind
    out.append(pad + sk.mark())
    if shape is None:
        return
    kind, inner = shape
    if kind in EXITS:
        if kind == "break" and in_loop:
            out.append(pad + "break")
        elif kind == "continue" and in_loop:
            out.append(pad + "continue")
        elif kind == "return" and in_func:
            out.append(pad + "return")
        out.append(pad + sk.mark()) if kind == "fall" else None
        return
    if kind == "if":
        out.append(f"{pad}if {sk.c()}:")
        _body(sk, inner, depth + 1, in_loop, in_func, ind + 1, out, forlist)
    elif kind == "ifelse":
        out.append(f"{pad}if {sk.c()}:")
        _body(sk, inner, depth + 1, in_loop, in_func, ind + 1, out, forlist)
        out.append(f"{pad}else:")
        _body(sk, ("fall", None), depth + 1, in_loop, in_func, ind + 1, out, forlist)
    elif kind == "ifelif":
        out.append(f"{pad}if {sk.c()}:")
        _body(sk, ("fall", None), depth + 1, in_loop, in_func, ind + 1, out, forlist)
        out.append(f"{pad}elif {sk.c()}:")
        _body(sk, inner, depth + 1, in_loop, in_func, ind + 1, out, forlist)
        out.append(f"{pad}else:")
        _body(sk, ("fall", None), depth + 1, in_loop, in_func, ind + 1, out, forlist)
    elif kind == "while":
        w = f"w{sk.m}"
        out.append(f"{pad}{w} = 0")
        out.append(f"{pad}while {w} < 3:")
        out.append(f"{pad}    {w} += 1")
        _body(sk, inner, depth + 1, True, in_func, ind + 1, out, forlist)
        out.append(f"{pad}    " + sk.mark())
    elif kind == "forrange":
        i = f"i{sk.m}"
        out.append(f"{pad}for {i} in range(3):")
        _body(sk, inner, depth + 1, True, in_func, ind + 1, out, forlist)
        out.append(f"{pad}    db.Mode = {i}")
    elif kind == "forlist":
        e = f"e{sk.m}"
        out.append(f"{pad}for {e} in [7, 8, 9]:")
        _body(sk, inner, depth + 1, True, in_func, ind + 1, out, True)
        out.append(f"{pad}    db.Mode = {e}")
    out.append(pad + sk.mark())


def skeleton_shapes(maxdepth=2):
    """all nestings up to maxdepth with each exit at the innermost position"""
    shapes = []

    def rec(d):
        res = [(e, None) for e in EXITS]
        if d < maxdepth:
            for k in CONSTRUCTS[:-1]:
                for inner in rec(d + 1):
                    res.append((k, inner))
        return res

    for s in rec(0):
        if s[0] in EXITS:
            continue
        shapes.append(s)
    return shapes


_SHAPES = {}


def skeleton_program(i, maxdepth=2, allow_forlist_nesting=False):
    """i-th skeleton (deterministic).  Variants: in main loop / in a function called twice / in a terminating function."""
    if maxdepth not in _SHAPES:
        _SHAPES[maxdepth] = skeleton_shapes(maxdepth)
    shapes = _SHAPES[maxdepth]
    variant = i % 3
    shape = shapes[(i // 3) % len(shapes)]
    if not allow_forlist_nesting and _forlist_depth(shape) > 1:
        shape = shapes[(i // 3 + 7) % len(shapes)]
        if _forlist_depth(shape) > 1:
            return None
    sk = _Sk()
    out = []
    in_func = variant != 0
    if variant == 0:
        out += ["while True:", "    yield_()"]
        _body(sk, shape, 0, False, False, 1, out, False)
    else:
        out += ["def body(a):"]
        _body(sk, shape, 0, False, True, 1, out, False)
        out += ["    db.Lock = a", "while True:", "    yield_()", "    body(1)", "    db.Open = 5", "    body(2)" if variant == 2 else "    db.Open = 6"]
    src = HEADER + "\n".join(out) + "\n"
    if not in_func and "return" in src:
        pass
    return src, dict(shape=repr(shape), variant=variant)


def _forlist_depth(shape):
    d = 0
    while shape is not None:
        if shape[0] == "forlist":
            d += 1
        shape = shape[1]
    return d


def n_skeletons(maxdepth=2):
    if maxdepth not in _SHAPES:
        _SHAPES[maxdepth] = skeleton_shapes(maxdepth)
    return 3 * len(_SHAPES[maxdepth])


# ------------------------------------------------------------------------------ long lines only
def longline_program(r):
    """A terminating script in which every statement compiles to one instruction: with original_code_as_comment every
    emitted line carries a comment at column >= 48, so (non-compact) no line is short enough to take the version tag."""
    L = []
    vs = []
    for j in range(r.randint(1, 3)):
        v = r.choice(["level", "temp", "t", "amount"]) + str(j)
        L.append(f"{v} = d{r.randrange(6)}.{r.choice(['Pressure', 'Temperature', 'Setting', 'Ratio'])}")
        vs.append(v)
    names = ["lamp", "heater one", "Bank1", "x9"]

    def store(ind):
        pad = "    " * ind
        k = r.random()
        if k < 0.45:
            return f'{pad}{r.choice(["WallLights", "WallHeaters", "LogicSorters"])}["{r.choice(names)}"].{r.choice(["On", "Lock"])} = {r.choice(["1", "0"] + vs)}'
        return f"{pad}d{r.randrange(6)}.{r.choice(['Setting', 'On', 'Lock', 'Mode'])} = {r.choice(vs + ['1', '7'])}"

    def block(ind, depth):
        out = []
        for _ in range(r.randint(1, 3)):
            if depth < 3 and r.random() < 0.5:
                out.append(f"{'    ' * ind}if {r.choice(vs)} {r.choice(['>', '<', '>=', '<=', '==', '!='])} {r.choice(['5000', '3', '100.5', '0'])}:")
                out += block(ind + 1, depth + 1)
            else:
                out.append(store(ind))
        return out

    L += block(0, 0)
    if not any(l.startswith("if ") for l in L):
        L.append(f"if {vs[0]} > 5000:")
        L.append(store(1))
    L.append(f"db.Setting = {vs[0]}")
    return HEADER + "\n".join(L) + "\n"


# ------------------------------------------------------------------------------ look-alike function names, both emitted
NAME_PAIRS = [("fill_a", "fillxa"), ("get_v", "getxv"), ("a_b", "azb"), ("a_c", "abc"), ("run_1", "runz1"), ("p_q", "pxq"), ("update", "update_display"), ("set", "set_all"), ("tick", "pre_tick"), ("step", "substep"), ("a", "a_b"), ("b", "a_b"), ("to", "to_sunset"), ("x_y_z", "xayaz"), ("f_1", "f11"), ("calc", "calc2")]


def pair_program(r):
    """Two (sometimes three) functions whose names look alike after mangling ('_' -> '.'), ALL of them emitted as
    subroutines (each is called at least twice) and called from each other's neighbourhood: a label substitution
    that matches more than the exact token sends a call to the wrong function."""
    a, b = r.choice(NAME_PAIRS)
    names = [a, b]
    if r.random() < 0.4:
        c = r.choice([x for p in NAME_PAIRS for x in p if x not in names])
        names.append(c)
    r.shuffle(names)
    cells = _Cells(r)
    L = []
    for k, nm in enumerate(names):
        L.append(f"def {nm}(v):")
        if r.random() < 0.4:
            L += [f"    if {r.choice(IN_BOOL)}:", "        return"]
        L.append(f"    {cells.next()} = v + {100 * (k + 1)}")
        if k and r.random() < 0.4:
            L.append(f"    {names[k - 1]}(v + 1)")
    main = ["while True:", "    yield_()"]
    calls = []
    for nm in names:
        for _ in range(r.randint(2, 3)):
            calls.append(f"    {nm}({_arg(r, [])})")
    r.shuffle(calls)
    return HEADER + "\n".join(L + main + calls) + "\n"
