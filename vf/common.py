"""Shared helpers: paths, seeds, hashing, the repo import shim."""
import hashlib
import json
import os
import random
import sys
from pathlib import Path

VERIF = Path(__file__).resolve().parent.parent
REPO = Path(os.environ.get("VERIF_REPO", "/repo"))
REPO_SRC = REPO / "src"
PKG = REPO_SRC / "stationeers_pytrapic"
PYTHON = os.environ.get("VERIF_PYTHON", "/venv/bin/python")
GUARD = "PYTRAPIC_VERIF"

ALL_PROPS = ["C%02d" % i for i in range(1, 19)]

OPTION_NAMES = [
    "original_code_as_comment",
    "generated_comments",
    "inline_functions",
    "remove_labels",
    "append_version",
    "compact",
    "tail_call_optimization",
    "use_push_pop_functions",
]
OPTION_DEFAULTS = dict(
    original_code_as_comment=False,
    generated_comments=False,
    inline_functions=True,
    remove_labels=False,
    append_version=True,
    compact=False,
    tail_call_optimization=False,
    use_push_pop_functions=False,
)

HEADER = "from stationeers_pytrapic.symbols import *\n"


def seed_env() -> int:
    try:
        return int(os.environ.get("VERIF_SEED", "0"))
    except ValueError:
        return 0


def rng(*parts) -> random.Random:
    return random.Random(":".join(str(p) for p in parts))


def sha(obj) -> str:
    if not isinstance(obj, (str, bytes)):
        obj = json.dumps(obj, sort_keys=True, default=repr)
    if isinstance(obj, str):
        obj = obj.encode("utf-8", "surrogatepass")
    return hashlib.sha1(obj).hexdigest()[:16]


def ensure_repo_on_path():
    p = str(REPO_SRC)
    if p not in sys.path:
        sys.path.insert(0, p)


def opts_from_bits(bits: int) -> dict:
    return {n: bool(bits >> i & 1) for i, n in enumerate(OPTION_NAMES)}


def opts_key(o: dict) -> str:
    full = dict(OPTION_DEFAULTS)
    full.update(o)
    return "".join("1" if full[n] else "0" for n in OPTION_NAMES)


def suite_vectors():
    """The two option vectors the repository's test-suite uses."""
    return [
        dict(compact=False, inline_functions=False, append_version=False, remove_labels=False),
        dict(compact=True, inline_functions=True, append_version=False, remove_labels=True),
    ]


def jsonable(x):
    """Make a value safe for json.dumps (floats nan/inf stay as python floats)."""
    if isinstance(x, dict):
        return {str(k): jsonable(v) for k, v in x.items()}
    if isinstance(x, (list, tuple, set, frozenset)):
        return [jsonable(v) for v in x]
    if isinstance(x, (str, int, float, bool)) or x is None:
        return x
    return repr(x)
