"""Long-lived worker processes with a per-case watchdog (no multiprocessing.Pool).

A task is a JSON object {"stream": str, "lo": int, "hi": int, ...}; the worker
answers one JSON line per case and a final {"done": true}.  If no line arrives
within `timeout` seconds the worker is killed, the case in flight is reported
as inconclusive("watchdog") and the rest of the batch is re-queued.
"""
import json
import os
import queue
import select
import subprocess
import sys
import threading
import time

from .common import PYTHON, REPO_SRC, VERIF


def worker_env(extra=None):
    env = dict(os.environ)
    env["PYTHONPATH"] = f"{VERIF}:{REPO_SRC}"
    if env.get("VERIF_PYCACHE"):
        # bytecode goes to a scratch directory outside /repo (also speeds up the constexpr children, whose 1 s budget
        # otherwise goes into compiling the 34k-line generated tables)
        env["PYTHONPYCACHEPREFIX"] = env["VERIF_PYCACHE"]
        env.pop("PYTHONDONTWRITEBYTECODE", None)
    else:
        env["PYTHONDONTWRITEBYTECODE"] = "1"
    env.setdefault("PYTHONHASHSEED", "0")
    env.pop("PYTRAPIC_VERIF", None)
    if extra:
        env.update(extra)
    return env


class _Worker:
    def __init__(self, prop, env_extra, cwd):
        self.prop = prop
        self.env_extra = env_extra
        self.cwd = cwd
        self.proc = None
        self.start()

    def start(self):
        self.proc = subprocess.Popen(
            [PYTHON, "-m", "vf.worker", self.prop] if os.environ.get("VERIF_PYCACHE") else [PYTHON, "-B", "-m", "vf.worker", self.prop],
            stdin=subprocess.PIPE,
            stdout=subprocess.PIPE,
            stderr=subprocess.DEVNULL,
            env=worker_env(self.env_extra),
            cwd=self.cwd,
            bufsize=0,
        )
        self.buf = b""

    def kill(self):
        try:
            self.proc.kill()
            self.proc.wait(timeout=10)
        except Exception:
            pass

    def send(self, obj):
        self.proc.stdin.write((json.dumps(obj) + "\n").encode())
        self.proc.stdin.flush()

    def readline(self, timeout):
        deadline = time.time() + timeout
        fd = self.proc.stdout.fileno()
        while b"\n" not in self.buf:
            left = deadline - time.time()
            if left <= 0:
                return None
            r, _, _ = select.select([fd], [], [], min(left, 1.0))
            if r:
                chunk = os.read(fd, 1 << 16)
                if not chunk:
                    return b""  # EOF: worker died
                self.buf += chunk
        line, self.buf = self.buf.split(b"\n", 1)
        return line

    def close(self):
        try:
            self.proc.stdin.close()
        except Exception:
            pass
        try:
            self.proc.wait(timeout=5)
        except Exception:
            self.kill()


def run_tasks(prop, tasks, nworkers=14, timeout=60.0, env_extra=None, cwd=None, deadline=None, on_result=None):
    """Run batches on workers.  Returns (results, meta).  `deadline` = absolute
    time after which no new batch is started (truncation is reported in meta)."""
    q = queue.Queue()
    if deadline is not None:
        # under a time cap the streams are served in proportion (a loaded machine then thins every stream a little
        # instead of dropping the ones planned last: that is how a seeded change went unseen in one run)
        per = {}
        for t in tasks:
            per.setdefault(t.get("stream"), []).append(t)
        order = []
        for st, ts in per.items():
            for k, t in enumerate(ts):
                order.append(((k + 0.5) / len(ts), len(order), t))
        tasks = [t for _, _, t in sorted(order, key=lambda x: (x[0], x[1]))]
    for t in tasks:
        q.put(t)
    results = []
    lock = threading.Lock()
    meta = dict(watchdog=0, worker_deaths=0, truncated_batches=0, batches=len(tasks))

    def emit(r):
        with lock:
            results.append(r)
            if on_result:
                on_result(r)

    first = [True]

    def loop():
        with lock:
            probe = first[0]
            first[0] = False
        # one worker per run carries the anchor coverage probe (sys.monitoring LINE events, self-disabling)
        w = _Worker(prop, dict(env_extra or {}, VERIF_COVER="1") if probe else env_extra, cwd)
        try:
            while True:
                try:
                    task = q.get_nowait()
                except queue.Empty:
                    return
                if deadline is not None and time.time() > deadline:
                    with lock:
                        meta["truncated_batches"] += 1
                    continue
                lo, hi = task["lo"], task["hi"]
                nxt = lo
                while nxt < hi:
                    sub = dict(task, lo=nxt, hi=hi)
                    try:
                        w.send(sub)
                    except Exception:
                        w.kill()
                        w.start()
                        with lock:
                            meta["worker_deaths"] += 1
                        continue
                    while True:
                        # first answer of a fresh worker includes the import cost
                        line = w.readline(timeout + 30)
                        if line is None or line == b"":
                            reason = "watchdog" if line is None else "worker-died"
                            with lock:
                                meta["watchdog" if line is None else "worker_deaths"] += 1
                            emit(dict(id=f"{task['stream']}:{nxt}", stream=task["stream"], i=nxt, verdict="inconclusive", reason=reason, counters={}))
                            nxt += 1
                            w.kill()
                            w.start()
                            break
                        try:
                            r = json.loads(line)
                        except ValueError:
                            continue
                        if r.get("done"):
                            nxt = hi
                            break
                        if "coverage" in r:
                            if on_result:
                                with lock:
                                    on_result(r)
                            continue
                        emit(r)
                        nxt = r.get("i", nxt) + 1
        finally:
            w.close()

    n = max(1, min(nworkers, len(tasks)))
    threads = [threading.Thread(target=loop, daemon=True) for _ in range(n)]
    for t in threads:
        t.start()
    for t in threads:
        t.join()
    return results, meta


def batches(stream, n, size, **extra):
    return [dict(stream=stream, lo=lo, hi=min(n, lo + size), **extra) for lo in range(0, n, size)]
