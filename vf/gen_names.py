"""Identifier pools for functions / modules (C05): ordinary and hostile."""

ORDINARY = ["update", "measure", "control", "step", "work", "calc", "show", "tick", "check", "apply"]
PREFIX_CHAINS = ["update", "update_display", "update_display_now", "range1", "range1_const", "to", "to_sunset", "set", "set_all", "set_all_now"]
COMPONENT_CLASH = ["a", "b", "a_b", "a_b_c", "b_c", "c", "x_y", "x", "y"]
LABEL_LOOKALIKE = ["lbwhile1", "lbelse2", "lbfor3", "lbend4", "lbwhile_end2", "lbfor_body3", "f", "fend", "g", "gend", "main", "mainend", "lbfor_continue5"]
OPERAND_LOOKALIKE = ["On", "Setting", "Average", "Maximum", "Mode", "r1x", "ra_", "sp1", "db1", "d7", "jal1", "e1", "Color", "Occupied", "Sum", "r16", "r_1", "x0", "HASHx"]

# names that a '.' in the mangled label would match if the label were used as a regular expression (fill_a ->
# 'fill.a' matches 'fillxa'), names with regex metacharacters' neighbours, and equal-length pairs
REGEX_LOOKALIKE = ["fill_a", "fillxa", "get_v", "getxv", "a_b", "azb", "a_c", "abc", "run_1", "runz1", "p_q_r", "pxqyr", "p_qyr"]

POOLS = dict(regex=REGEX_LOOKALIKE, ordinary=ORDINARY, prefix=PREFIX_CHAINS, clash=COMPONENT_CLASH, lookalike=LABEL_LOOKALIKE, operand=OPERAND_LOOKALIKE)


def pool(kind):
    return {"f": list(POOLS[kind])}
