"""Trigger predicates: named, narrow, AST-level characterisations of the mechanisms behind known findings.

`triggers_of(src)` returns the names of all predicates that hold for a source
(main module).  A violation is attributed to a known finding only if the
finding's trigger is in this list *and* the monitor signature matches.
"""
import ast

from . import enums as E

_LOOPS = (ast.For, ast.While)


def _parents(tree):
    par = {}
    for n in ast.walk(tree):
        for c in ast.iter_child_nodes(n):
            par[c] = n
    return par


def _is_for_list(n):
    return isinstance(n, ast.For) and not (isinstance(n.iter, ast.Call) and isinstance(n.iter.func, ast.Name) and n.iter.func.id == "range")


def _is_for_range(n):
    return isinstance(n, ast.For) and not _is_for_list(n)


def _enclosing_loop(n, par):
    p = par.get(n)
    while p is not None and not isinstance(p, _LOOPS):
        if isinstance(p, (ast.FunctionDef, ast.Module)):
            return None
        p = par.get(p)
    return p


def _user_funcs(tree):
    return {n.name for n in ast.walk(tree) if isinstance(n, ast.FunctionDef)}


def _library_roots(main_text):
    """{module name: set of function names the main script calls as <alias>.<f>(..)}; None if the main file does not parse"""
    try:
        tree = ast.parse(main_text)
    except Exception:
        return None
    alias = {}
    for n in ast.walk(tree):
        if isinstance(n, ast.ImportFrom) and n.module == "library":
            for a in n.names:
                alias[a.asname or a.name] = a.name
    roots = {}
    for n in ast.walk(tree):
        if isinstance(n, ast.Call) and isinstance(n.func, ast.Attribute) and isinstance(n.func.value, ast.Name) and n.func.value.id in alias:
            roots.setdefault(alias[n.func.value.id], set()).add(n.func.attr)
    for m in alias.values():
        roots.setdefault(m, set())
    return roots


def triggers_of(src, library=False, roots=None):
    if isinstance(src, dict):
        out = set()
        lr = _library_roots(src.get("", ""))
        for k, v in src.items():
            t = set(triggers_of(v, library=(k != ""), roots=(lr.get(k) if (lr is not None and k != "" and k in lr) else None)))
            if k != "":
                # whether the top-level script terminates is a property of the main file only
                t -= {"main_terminates", "main_terminates_and_calls_function"}
            out.update(t)
        if len(src) > 1:
            out.add("multi_module")
        return sorted(out)
    try:
        tree = ast.parse(src)
    except Exception:
        return ["unparsable"]
    par = _parents(tree)
    funcs = _user_funcs(tree)
    t = set()
    lt = E.positional("T")
    for n in ast.walk(tree):
        if isinstance(n, ast.Break):
            loop = _enclosing_loop(n, par)
            if loop is not None:
                if _is_for_list(loop):
                    t.add("break_in_for_list")
                # chain of ifs between the break and the loop
                chain = []
                c, p = n, par.get(n)
                while p is not loop and p is not None:
                    if isinstance(p, ast.If):
                        chain.append((p, c))
                    c, p = p, par.get(p)
                if len(chain) >= 2:
                    t.add("break_nested_in_two_ifs")
                if len(chain) >= 1:
                    ifn, child = chain[0]
                    if child in ifn.orelse:
                        t.add("break_in_else_branch")
                    elif ifn.body and ifn.body[0] is not child:
                        t.add("break_not_first_in_if_body")
        elif isinstance(n, ast.Continue):
            loop = _enclosing_loop(n, par)
            if loop is not None and _is_for_range(loop):
                t.add("continue_in_for_range")
            if loop is not None and _is_for_list(loop):
                t.add("continue_in_for_list")
        elif isinstance(n, ast.For) and _is_for_list(n):
            t.add("for_list")
            for m in ast.walk(n):
                if m is not n and isinstance(m, ast.For) and _is_for_list(m):
                    t.add("nested_for_list")
                if isinstance(m, ast.Call) and isinstance(m.func, ast.Name) and m.func.id in funcs:
                    t.add("call_in_for_list_body")
                if isinstance(m, ast.Call) and isinstance(m.func, ast.Attribute):
                    t.add("call_in_for_list_body")
                if isinstance(m, ast.Return):
                    t.add("return_in_for_list_body")
        elif isinstance(n, ast.UnaryOp) and isinstance(n.op, ast.Invert):
            t.add("invert_operator")
        elif isinstance(n, ast.Subscript) and isinstance(n.value, (ast.List, ast.Tuple)) and len(n.value.elts) >= 6 and not isinstance(n.slice, ast.Constant):
            t.add("const_list_ge6_dynamic_index")
        elif isinstance(n, ast.Attribute) and isinstance(n.value, ast.Name) and n.value.id in ("d0", "d1", "d2", "d3", "d4", "d5", "db") and n.attr not in lt:
            t.add("unknown_logic_type_on_generic_device")
        elif isinstance(n, ast.IfExp):
            for m in ast.walk(n.orelse):
                if isinstance(m, (ast.Attribute, ast.Subscript, ast.Call, ast.BinOp, ast.Compare, ast.UnaryOp, ast.BoolOp)):
                    t.add("ifexp_else_arm_emits_code")
                    break
        elif isinstance(n, (ast.If, ast.While)) and not (isinstance(n, ast.While) and isinstance(n.test, ast.Constant) and n.test.value is True):
            tst = n.test
            if isinstance(tst, ast.UnaryOp) and isinstance(tst.op, ast.Not):
                tst = tst.operand
            if isinstance(tst, ast.Constant) or (isinstance(tst, ast.Name) and _assigned_const_once(tree, tst.id)):
                t.add("constant_condition")
    # for targets bound more than once / bound before
    assigned = {}
    for n in ast.walk(tree):
        if isinstance(n, ast.For) and isinstance(n.target, ast.Name):
            assigned.setdefault(n.target.id, []).append("for")
        elif isinstance(n, (ast.Assign, ast.AugAssign)):
            tg = n.targets if isinstance(n, ast.Assign) else [n.target]
            for x in tg:
                if isinstance(x, ast.Name):
                    assigned.setdefault(x.id, []).append("assign")
    for k, v in assigned.items():
        if "for" in v and len(v) > 1:
            t.add("for_target_bound_more_than_once")
    # y = x where x is re-assigned somewhere (single-assignment aliasing)
    multi = {k for k, v in assigned.items() if len(v) > 1}
    declared_global = {nm for g in ast.walk(tree) if isinstance(g, ast.Global) for nm in g.names}
    for n in ast.walk(tree):
        if isinstance(n, ast.Assign) and isinstance(n.value, ast.Name) and len(n.targets) == 1 and isinstance(n.targets[0], ast.Name):
            if n.value.id in multi and n.targets[0].id not in multi:
                t.add("alias_then_mutate_source")
        if isinstance(n, ast.Call) and isinstance(n.func, ast.Name) and n.func.id in funcs:
            for a in n.args:
                # the parameter of an inlined function shares the register of the bare variable passed in; that only
                # shows when the variable changes while the callee runs, i.e. when some function declares it global
                if isinstance(a, ast.Name) and a.id in multi and a.id in declared_global:
                    t.add("bare_variable_argument")
    # void function whose last statement is a call to a function that returns a value
    fdefs = {n.name: n for n in ast.walk(tree) if isinstance(n, ast.FunctionDef)}
    returns_value = {k: any(isinstance(m, ast.Return) and m.value is not None for m in ast.walk(v)) for k, v in fdefs.items()}
    for k, v in fdefs.items():
        if v.body and not returns_value[k]:
            last = v.body[-1]
            if isinstance(last, ast.Expr) and isinstance(last.value, ast.Call) and isinstance(last.value.func, ast.Name) and returns_value.get(last.value.func.id):
                t.add("void_function_ends_with_call_to_value_function")
    # a value function with exactly one call site, and that call site is inside another function: it is inlined
    # there and its result register gets a lifetime from source lines (definition .. call site)
    calls_in = {}
    for k, v in fdefs.items():
        calls_in[k] = [m.func.id for m in ast.walk(v) if isinstance(m, ast.Call) and isinstance(m.func, ast.Name) and m.func.id in fdefs]
    top_calls = []
    for s_ in tree.body:
        if not isinstance(s_, ast.FunctionDef):
            for m in ast.walk(s_):
                if isinstance(m, ast.Call) and isinstance(m.func, ast.Name) and m.func.id in fdefs:
                    top_calls.append(m.func.id)
    if library:
        # functions of a library module are called from the main file (m.f(..)): every one may be reachable,
        # and such a call counts as a call site outside any function
        # (when the main script is known, only the functions it really calls are roots)
        top_calls = top_calls + (list(fdefs) if roots is None else [f_ for f_ in roots if f_ in fdefs])
    reachable = set()
    work = list(top_calls)
    while work:
        f_ = work.pop()
        if f_ not in reachable:
            reachable.add(f_)
            work += calls_in.get(f_, [])
    sites = {}
    for f_ in top_calls:
        sites.setdefault(f_, []).append("")
    for k in reachable:
        for f_ in calls_in.get(k, []):
            sites.setdefault(f_, []).append(k)
    for k, where in sites.items():
        if len(where) == 1 and where[0] != "" and returns_value.get(k):
            t.add("value_function_with_single_call_site_inside_function")
    # a function-local value bound outside two nested loops and read in the inner one (lifetime is widened to the
    # innermost enclosing loop only)
    for k, v in fdefs.items():
        gl = set()
        for m in ast.walk(v):
            if isinstance(m, ast.Global):
                gl.update(m.names)
        locals_ = {a.arg for a in v.args.args}
        for m in ast.walk(v):
            if isinstance(m, ast.Name) and isinstance(m.ctx, ast.Store):
                locals_.add(m.id)
        locals_ -= gl
        for l1 in ast.walk(v):
            if not isinstance(l1, _LOOPS):
                continue
            bound_in_l1 = {m.id for m in ast.walk(l1) if isinstance(m, ast.Name) and isinstance(m.ctx, ast.Store)}
            for l2 in ast.walk(l1):
                if l2 is l1 or not isinstance(l2, _LOOPS):
                    continue
                reads = {m.id for m in ast.walk(l2) if isinstance(m, ast.Name) and isinstance(m.ctx, ast.Load)}
                if (reads & locals_) - bound_in_l1:
                    t.add("local_bound_outside_nested_loops_read_in_inner_loop")
    # register-held reference id captured by a Stack object
    for n in ast.walk(tree):
        if isinstance(n, ast.Call) and isinstance(n.func, ast.Name) and n.func.id == "Stack":
            for kw in n.keywords:
                if kw.arg == "ref_id" and not isinstance(kw.value, ast.Constant):
                    t.add("stack_object_from_register_ref_id")
    # tail-call candidates (last statement is a bare call of a user function) with another call / early return
    for k, v in fdefs.items():
        if not v.body:
            continue
        last = v.body[-1]
        if isinstance(last, ast.Expr) and isinstance(last.value, ast.Call) and isinstance(last.value.func, (ast.Name, ast.Attribute)):
            fn = last.value.func
            is_user = (isinstance(fn, ast.Name) and fn.id in fdefs) or isinstance(fn, ast.Attribute)
            if not is_user:
                continue
            for m in ast.walk(v):
                if m is last.value:
                    continue
                if isinstance(m, ast.Call) and ((isinstance(m.func, ast.Name) and m.func.id in fdefs) or isinstance(m.func, ast.Attribute)):
                    t.add("tail_call_candidate_with_other_call")
                if isinstance(m, ast.For) and _is_for_list(m):
                    t.add("tail_call_candidate_with_other_call")
                if isinstance(m, ast.Return):
                    t.add("tail_call_candidate_with_early_return")
    # g + f() where f (transitively) writes the global g
    gw = {}
    for k, v in fdefs.items():
        gl = set()
        for m in ast.walk(v):
            if isinstance(m, ast.Global):
                gl.update(m.names)
        gw[k] = gl
    for _ in range(4):
        for k, v in fdefs.items():
            for m in ast.walk(v):
                if isinstance(m, ast.Call) and isinstance(m.func, ast.Name) and m.func.id in gw:
                    gw[k] = gw[k] | gw[m.func.id]
    for n in ast.walk(tree):
        if isinstance(n, (ast.Assign, ast.AugAssign, ast.Expr, ast.Return, ast.If, ast.While)):
            root = n.value if isinstance(n, (ast.Assign, ast.AugAssign, ast.Expr, ast.Return)) else n.test
            if root is None:
                continue
            calls = [m for m in ast.walk(root) if isinstance(m, ast.Call) and isinstance(m.func, ast.Name) and gw.get(m.func.id)]
            if calls:
                written = set().union(*[gw[c.func.id] for c in calls])
                in_args = set()
                for c in calls:
                    for a in c.args:
                        in_args.update(id(x) for x in ast.walk(a))
                reads = {m.id for m in ast.walk(root) if isinstance(m, ast.Name) and id(m) not in in_args}
                if isinstance(n, ast.AugAssign) and isinstance(n.target, ast.Name):
                    reads.add(n.target.id)
                if reads & written:
                    t.add("global_read_in_expression_with_call_that_writes_it")
    # math function (folded by the transpiler) applied to something containing HASH(..): foldable only in compact mode
    for n in ast.walk(tree):
        if isinstance(n, ast.Call) and isinstance(n.func, ast.Name) and n.func.id in ("sin", "cos", "tan", "asin", "acos", "atan", "atan2", "sqrt", "log", "exp") and n.func.id not in fdefs:
            if any(isinstance(m, ast.Call) and isinstance(m.func, ast.Name) and m.func.id == "HASH" for a in n.args for m in ast.walk(a)):
                t.add("math_function_of_hash")
    # STR(..) as an operand of an operator: foldable only in compact mode (verbose carries it as a string)
    for n in ast.walk(tree):
        if isinstance(n, (ast.BinOp, ast.UnaryOp, ast.Compare, ast.BoolOp)):
            kids = [n.left, n.right] if isinstance(n, ast.BinOp) else [n.operand] if isinstance(n, ast.UnaryOp) else ([n.left] + n.comparators) if isinstance(n, ast.Compare) else n.values
            if any(isinstance(k, ast.Call) and isinstance(k.func, ast.Name) and k.func.id == "STR" for k in kids):
                t.add("str_as_operator_operand")
    # user data in the part of the chip's own stack that the call conventions use (push ra from cell 0 upwards,
    # arguments / results in the top cells)
    for n in ast.walk(tree):
        if isinstance(n, ast.Subscript) and isinstance(n.value, ast.Name) and n.value.id == "stack":
            sl = n.slice
            if isinstance(sl, ast.Constant) and isinstance(sl.value, (int, float)):
                if not 64 <= sl.value <= 447:
                    t.add("user_stack_address_outside_64_447")
            else:
                t.add("user_stack_address_outside_64_447")
        if isinstance(n, ast.Call) and isinstance(n.func, ast.Name) and n.func.id in ("push", "pop", "peek", "poke", "get", "put") and n.func.id not in fdefs:
            t.add("user_stack_address_outside_64_447")
    # names read but never bound anywhere (and not provided by the dialect)
    bound = set(assigned) | set(fdefs)
    for n in ast.walk(tree):
        if isinstance(n, ast.arg):
            bound.add(n.arg)
        elif isinstance(n, (ast.Import, ast.ImportFrom)):
            for a in n.names:
                bound.add(a.asname or a.name)
        elif isinstance(n, ast.Global):
            bound.update(n.names)
    dialect = _dialect_names()
    if dialect:
        for n in ast.walk(tree):
            if isinstance(n, ast.Name) and isinstance(n.ctx, ast.Load) and n.id not in bound and n.id not in dialect and n.id != "__name__":
                t.add("undefined_name_read")
                break
    # string literal passed to an intrinsic (an instruction wrapper)
    from .ic10_isa import ISA

    for n in ast.walk(tree):
        if isinstance(n, ast.Call) and isinstance(n.func, ast.Name) and n.func.id.rstrip("_") in ISA and n.func.id not in fdefs:
            if any(isinstance(a, ast.Constant) and isinstance(a.value, str) for a in n.args):
                t.add("string_literal_intrinsic_argument")
    # a name bound to an enum member / structure / stack object in one place and bound again elsewhere
    sdata = _struct_names()
    enum_classes = set(E.merged())
    special = {}
    for n in ast.walk(tree):
        if isinstance(n, ast.Assign) and len(n.targets) == 1 and isinstance(n.targets[0], ast.Name):
            v = n.value
            sp = False
            if isinstance(v, ast.Attribute) and isinstance(v.value, ast.Name) and v.value.id in enum_classes:
                sp = True
            elif isinstance(v, ast.Call) and isinstance(v.func, ast.Name) and (v.func.id in sdata[0] or v.func.id in ("Stack", "Device")):
                sp = True
            elif isinstance(v, ast.Name) and v.id in sdata[1]:
                sp = True
            elif isinstance(v, ast.Subscript) and isinstance(v.value, ast.Name) and v.value.id in sdata[1]:
                sp = True
            if sp:
                special[n.targets[0].id] = True
    for k in special:
        if len(assigned.get(k, [])) > 1:
            t.add("name_bound_to_enum_or_structure_and_rebound")
    # terminating main with a called function
    body = [s for s in tree.body if not isinstance(s, (ast.Import, ast.ImportFrom, ast.FunctionDef))]
    endless = False
    for s in body:
        if isinstance(s, ast.While) and isinstance(s.test, ast.Constant) and s.test.value and not any(isinstance(m, ast.Break) and _enclosing_loop(m, par) is s for m in ast.walk(s)):
            endless = True
    called = any(isinstance(m, ast.Call) and ((isinstance(m.func, ast.Name) and m.func.id in funcs) or isinstance(m.func, ast.Attribute)) for m in ast.walk(tree))
    if not endless and called:
        t.add("main_terminates_and_calls_function")
    if not endless:
        t.add("main_terminates")
    return sorted(t)


_DN = None


def _dialect_names():
    global _DN
    if _DN is None:
        try:
            from .common import ensure_repo_on_path

            ensure_repo_on_path()
            from stationeers_pytrapic import symbols

            _DN = set(vars(symbols)) | {"range", "True", "False", "None", "library"}
        except Exception:
            _DN = set()
    return _DN


_SN = None


def _struct_names():
    global _SN
    if _SN is None:
        import json

        from .common import VERIF

        d = json.loads((VERIF / "vf" / "refdata" / "structures_pinned.json").read_text())
        _SN = (set(d), {v["plural"] for v in d.values() if v.get("plural")})
    return _SN


def _assigned_const_once(tree, name):
    n = 0
    const = False
    for s in ast.walk(tree):
        if isinstance(s, ast.Assign):
            for x in s.targets:
                if isinstance(x, ast.Name) and x.id == name:
                    n += 1
                    const = isinstance(s.value, ast.Constant)
        elif isinstance(s, ast.AugAssign) and isinstance(s.target, ast.Name) and s.target.id == name:
            n += 2
    return n == 1 and const
