"""IC10 arithmetic kernel shared by the reference machine and the reference interpreter.

Trusted domain (generators stay inside; see DESIGN.md §2.2): + - * / IEEE double
(x/0 -> +-inf or nan); mod = C# remainder made non-negative, judged for positive
modulus; bit operations through a 53/54-bit integer, judged for non-negative
integers < 2^31 and shift counts 0..20; round: no ties generated.
"""
import math

INF = math.inf
NAN = math.nan


def d2l(d):
    if d != d or d in (INF, -INF):
        return 0
    return int(math.fmod(d, 9007199254740992.0))


def l2d(l):
    l &= (1 << 54) - 1
    if l & (1 << 53):
        l -= 1 << 54
    return float(l)


def _div(x, y):
    if y != 0:
        try:
            return x / y
        except OverflowError:
            return INF
    if x == 0 or x != x:
        return NAN
    return math.copysign(INF, x) * math.copysign(1.0, y)


def _mod(x, y):
    if y == 0 or x != x or y != y or abs(x) == INF:
        return NAN
    if abs(y) == INF:
        return x
    r = math.fmod(x, y)
    if r < 0:
        r += y
    return r


def _pow(x, y):
    try:
        return math.pow(x, y)
    except OverflowError:
        return INF
    except ValueError:
        return NAN


def _mul(x, y):
    return x * y


def _fl(f):
    def g(x):
        if x != x or abs(x) == INF:
            return x
        return float(f(x))

    return g


def _dom(f):
    def g(x):
        try:
            return f(x)
        except (ValueError, OverflowError):
            if f is math.exp:
                return INF
            return NAN

    return g


def _round(x):
    # C# Math.Round: banker's rounding, same as python's round(); ties are not generated anyway
    return float(round(x))


def _shift(f):
    def g(x, y):
        n = int(y) if y == y and abs(y) != INF else 0
        if n < 0 or n > 64:
            n = n & 63
        return f(x, n)

    return g


def _max(x, y):
    if x != x or y != y:
        return NAN
    return x if x > y else y


def _min(x, y):
    if x != x or y != y:
        return NAN
    return x if x < y else y


BIN = {
    "add": lambda x, y: x + y,
    "sub": lambda x, y: x - y,
    "mul": _mul,
    "div": _div,
    "mod": _mod,
    "pow": _pow,
    "max": _max,
    "min": _min,
    "and": lambda x, y: l2d(d2l(x) & d2l(y)),
    "or": lambda x, y: l2d(d2l(x) | d2l(y)),
    "xor": lambda x, y: l2d(d2l(x) ^ d2l(y)),
    "nor": lambda x, y: l2d(~(d2l(x) | d2l(y))),
    "sll": _shift(lambda x, n: l2d(d2l(x) << n)),
    "sla": _shift(lambda x, n: l2d(d2l(x) << n)),
    "srl": _shift(lambda x, n: l2d((d2l(x) & ((1 << 54) - 1)) >> n)),
    "sra": _shift(lambda x, n: l2d(d2l(x) >> n)),
    "atan2": math.atan2,
    "seq": lambda x, y: float(x == y),
    "sne": lambda x, y: float(x != y),
    "slt": lambda x, y: float(x < y),
    "sle": lambda x, y: float(x <= y),
    "sgt": lambda x, y: float(x > y),
    "sge": lambda x, y: float(x >= y),
}
UN = {
    "move": lambda x: x,
    "abs": abs,
    "ceil": _fl(math.ceil),
    "floor": _fl(math.floor),
    "trunc": _fl(math.trunc),
    "round": _fl(_round),
    "sqrt": _dom(math.sqrt),
    "exp": _dom(math.exp),
    "log": _dom(math.log),
    "sin": _dom(math.sin),
    "cos": _dom(math.cos),
    "tan": _dom(math.tan),
    "asin": _dom(math.asin),
    "acos": _dom(math.acos),
    "atan": math.atan,
    "not": lambda x: l2d(~d2l(x)),
    "seqz": lambda x: float(x == 0),
    "snez": lambda x: float(x != 0),
    "sgtz": lambda x: float(x > 0),
    "sltz": lambda x: float(x < 0),
    "sgez": lambda x: float(x >= 0),
    "slez": lambda x: float(x <= 0),
    "snan": lambda x: float(x != x),
    "snanz": lambda x: float(x == x),
}
CMP = {
    "eq": lambda x, y: x == y,
    "ne": lambda x, y: x != y,
    "lt": lambda x, y: x < y,
    "le": lambda x, y: x <= y,
    "gt": lambda x, y: x > y,
    "ge": lambda x, y: x >= y,
}


def _ap(a, b, c):
    return abs(a - b) <= max(c * max(abs(a), abs(b)), 1.1210387714598537e-44 * 8)


TRI = {"sap": lambda a, b, c: float(_ap(a, b, c)), "sna": lambda a, b, c: float(not _ap(a, b, c)), "lerp": lambda a, b, c: a + (b - a) * min(1.0, max(0.0, c))}


def close(a, b, rel=1e-14):
    """Value comparison used by trace comparators."""
    if a == b:
        return True
    if isinstance(a, (int, float)) and isinstance(b, (int, float)):
        if a != a and b != b:
            return True
        if a != a or b != b:
            return False
        if abs(a) == INF or abs(b) == INF:
            return False
        return abs(a - b) <= rel * max(abs(a), abs(b))
    return False


def selfcheck():
    assert BIN["mod"](-7.0, 3.0) == 2.0 and BIN["mod"](7.0, 3.0) == 1.0
    assert BIN["div"](1.0, 0.0) == INF and BIN["div"](-1.0, 0.0) == -INF and BIN["div"](0.0, 0.0) != BIN["div"](0.0, 0.0)
    assert BIN["and"](6.0, 3.0) == 2.0 and BIN["or"](6.0, 3.0) == 7.0 and BIN["xor"](6.0, 3.0) == 5.0
    assert BIN["sll"](3.0, 4.0) == 48.0 and BIN["srl"](48.0, 4.0) == 3.0
    assert UN["not"](0.0) == -1.0 and UN["not"](5.0) == -6.0
    assert UN["floor"](-1.5) == -2.0 and UN["ceil"](-1.5) == -1.0 and UN["trunc"](-1.5) == -1.0
    assert UN["sqrt"](-1.0) != UN["sqrt"](-1.0)
    assert close(0.1 + 0.2, 0.3) and not close(1.0, 1.0001)
