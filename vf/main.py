"""Driver: ./check <ID> <quick|thorough> | ./check <ID> --replay <path> | ./check --selftest"""
import importlib
import json
import os
import shutil
import sys
import time
from collections import Counter

from . import kf
from .common import ALL_PROPS, VERIF, jsonable, seed_env, sha


def _mod(prop):
    return importlib.import_module(f"vf.props.{prop.lower()}")


def selftest():
    from . import crc, ic10_isa

    crc.selfcheck()
    probs = ic10_isa.selfcheck()
    if probs:
        print("HARNESS-INCONSISTENCY:", probs)
        return 2
    try:
        from . import selftests

        selftests.run()
    except ImportError:
        pass
    print("selftest ok")
    return 0


def check_one(mod, case):
    r = mod.check_case(case)
    r.setdefault("counters", {})
    return r


def replay(prop, path):
    mod = _mod(prop)
    d = json.loads(open(path).read())
    os.environ["VERIF_SEED"] = str(d.get("seed", 0))
    if hasattr(mod, "worker_init"):
        mod.worker_init()
    r = check_one(mod, d["case"])
    findings = kf.load_findings()
    bad = 0
    for v in r.get("violations", []):
        f = kf.attribute(prop, v, findings)
        if f:
            print(f"KNOWN-FINDING: property={prop} {f.id} {f.what}")
        else:
            bad += 1
            print("violation:", json.dumps(jsonable(v), indent=1)[:4000])
    print("verdict:", r.get("verdict"), r.get("reason", ""))
    if bad:
        print(f"VIOLATION property={prop} replay={path}")
        return 1
    return 0


def run(prop, tier):
    import tempfile

    # bytecode cache for the processes the checks start themselves (fresh-process references, the daemon): the
    # 34k-line generated tables otherwise cost seconds per start.  Outside /repo, removed when the run ends.
    pyc = tempfile.mkdtemp(prefix="vf-pyc.")
    os.environ["VERIF_PYCACHE"] = pyc
    try:
        return _run(prop, tier)
    finally:
        shutil.rmtree(pyc, ignore_errors=True)


def _run(prop, tier):
    from . import pool

    t0 = time.time()
    seed = seed_env()
    mod = _mod(prop)
    findings = kf.load_findings()
    plan = mod.plan(tier, seed)
    tasks = plan["tasks"]
    cap = plan.get("time_cap")
    nworkers = plan.get("nworkers", 14)
    if os.environ.get("VERIF_WORKERS", "").isdigit() and int(os.environ["VERIF_WORKERS"]) > 0:
        # fewer workers (shared machine): the time cap grows in proportion, the work stays the same
        n2 = min(nworkers, int(os.environ["VERIF_WORKERS"]))
        if cap:
            cap = cap * nworkers / n2
        nworkers = n2
    deadline = t0 + cap if cap else None

    agg = dict(evaluations=0, counters=Counter(), keys=set(), verdicts=Counter(), inconclusive=Counter(), features=Counter(), samples=[], violations=[], kf_seen=Counter(), streams=Counter(), watchdog_cases=[], cover={})
    rerun = []
    max_samples = plan.get("max_samples", 4)

    def on_result(r):
        if "coverage" in r and "verdict" not in r:
            for f, ls in r["coverage"].items():
                agg["cover"].setdefault(f, set()).update(ls)
            return
        agg["evaluations"] += 1
        agg["streams"][r.get("stream", "?")] += 1
        agg["verdicts"][r.get("verdict", "?")] += 1
        for k, v in r.get("counters", {}).items():
            agg["counters"][k] += v
        if r.get("verdict") == "inconclusive":
            agg["inconclusive"][r.get("reason", "?")] += 1
            if r.get("reason") == "watchdog":
                agg["watchdog_cases"].append((r.get("stream"), r.get("i"), dict(stream=r.get("stream"))))
        k = r.get("key")
        if k:
            if isinstance(k, list):
                agg["keys"].update(k)
            else:
                agg["keys"].add(k)
        for f in r.get("features", []) or []:
            agg["features"][f] += 1
        if r.get("sample") is not None and len(agg["samples"]) < max_samples and (r.get("key") or not agg["samples"]):
            agg["samples"].append(r["sample"])
        for v in r.get("violations", []) or []:
            v["case"] = r.get("case")
            v["case_id"] = r.get("id")
            f = kf.attribute(prop, v, findings)
            if f:
                agg["kf_seen"][f.id] += 1
            else:
                agg["violations"].append(v)

    if hasattr(mod, "driver_cases"):
        # cases that must run in the driver process (e.g. they start processes themselves)
        for r in mod.driver_cases(tier, seed):
            on_result(r)
    meta = dict(watchdog=0, worker_deaths=0, truncated_batches=0, batches=0)
    if tasks:
        _, meta = pool.run_tasks(prop, tasks, nworkers=nworkers, timeout=plan.get("timeout", 60.0), env_extra=plan.get("env_extra"), deadline=deadline, on_result=on_result)

    # cases that hit the watchdog are re-run alone; only a reproducible stall is a violation (and only where the
    # property is about returning at all)
    if getattr(mod, "RERUN_WATCHDOG", False) and agg["watchdog_cases"]:
        for (stream, idx, task) in agg["watchdog_cases"][:6]:
            _, m2 = pool.run_tasks(prop, [dict(task, lo=idx, hi=idx + 1)], nworkers=1, timeout=150.0, env_extra=plan.get("env_extra"), on_result=lambda r: rerun.append(r))
        for r in rerun:
            if r.get("verdict") == "inconclusive" and r.get("reason") == "watchdog":
                case = None
                try:
                    case = mod.gen_case(dict(stream=r["stream"]), r["i"])
                except Exception:
                    pass
                agg["violations"].append(dict(signature=dict(monitor="watchdog", event="reproducible-stall"), triggers=[], detail="no return within 60 s and again within 150 s when run alone", case=case, case_id=r.get("id")))
            else:
                agg["counters"]["watchdog_rerun_returned"] += 1

    # re-execute the witnesses of the findings that list this property
    kf_lines = []
    kf_notes = {}
    if hasattr(mod, "worker_init"):
        try:
            mod.worker_init()
        except Exception:
            pass
    for f in findings:
        if not f.lists(prop):
            continue
        w = f.witness.get(prop)
        still = None
        if w is not None:
            try:
                r = check_one(mod, w)
                still = any(f.matches(prop, dict(v, triggers=v.get("triggers", []))) for v in r.get("violations", []))
                # a witness that now fails differently is a new violation
                for v in r.get("violations", []):
                    if not kf.attribute(prop, v, findings):
                        v["case"] = w
                        v["case_id"] = f"witness:{f.id}"
                        agg["violations"].append(v)
            except Exception as e:
                still = None
                kf_notes[f.id] = f"witness could not be executed: {e!r}"
        if still or (still is None and agg["kf_seen"][f.id]):
            kf_lines.append(f"KNOWN-FINDING: property={prop} {f.id} {f.what} (re-observed: witness={'yes' if still else 'n/a'}, stream={agg['kf_seen'][f.id]})")
        elif still is False:
            kf_notes[f.id] = "witness no longer fails" + (f"; but attributed in stream {agg['kf_seen'][f.id]}x" if agg["kf_seen"][f.id] else "")
            if agg["kf_seen"][f.id]:
                kf_lines.append(f"KNOWN-FINDING: property={prop} {f.id} {f.what} (re-observed: witness=no, stream={agg['kf_seen'][f.id]})")

    extra = {}
    status = None
    if hasattr(mod, "finish"):
        res = mod.finish(agg, tier)
        if res:
            extra = res.get("coverage", {})
            status = res.get("inconclusive")

    # violations -> replay files (deduplicated by signature)
    # a run against a modified copy of the repository (tools/seeded.py, tools/runmut.py) keeps its files apart
    outroot = __import__("pathlib").Path(os.environ["VERIF_OUT"]) if os.environ.get("VERIF_OUT") else VERIF
    rdir = outroot / "replays" / prop
    if rdir.is_dir():
        shutil.rmtree(rdir, ignore_errors=True)  # replays of earlier runs would read as this run's
    vio_lines = []
    seen_sig = Counter()
    for v in agg["violations"]:
        sigkey = sha(v.get("signature", {}))
        seen_sig[sigkey] += 1
        if seen_sig[sigkey] > 2 or len(vio_lines) >= 40:
            continue
        rdir.mkdir(parents=True, exist_ok=True)
        h = sha([v.get("signature"), v.get("case")])
        path = rdir / f"{h}.json"
        path.write_text(json.dumps(jsonable(dict(property=prop, seed=seed, tier=tier, case=v.get("case"), case_id=v.get("case_id"), signature=v.get("signature"), triggers=v.get("triggers"), detail=v.get("detail"))), indent=1))
        line = f"VIOLATION property={prop} replay={path}"
        if line not in vio_lines:
            vio_lines.append(line)

    wall = time.time() - t0
    cov = dict(
        evaluations=agg["evaluations"],
        distinct_nontrivial=len(agg["keys"]),
        rule=getattr(mod, "RULE", ""),
        samples=agg["samples"][:max_samples] or [{"note": "no sample produced"}],
        verdicts=dict(agg["verdicts"]),
        streams=dict(agg["streams"]),
        monitor_counters=dict(agg["counters"]),
        features=dict(agg["features"]),
        inconclusive=dict(agg["inconclusive"]),
        known_findings_reobserved=dict(agg["kf_seen"]),
        known_finding_notes=kf_notes,
        distinct_violation_signatures=len(seen_sig),
        pool=dict(meta, watchdog_case_ids=[f"{a}:{b}" for a, b, _ in agg["watchdog_cases"][:40]]),
        time_cap_s=cap,
        trusted_base=getattr(mod, "TRUSTED", []),
    )
    try:
        from . import cover as _cover

        cov["anchor_coverage_probe"] = dict(note="lines of the anchored mechanisms executed by the share of the workload that ran on the probe worker (1 of the workers); line ranges are those of properties.jsonl (pinned commit)", mechanisms=_cover.report(prop, agg["cover"]), files={f: len(v) for f, v in agg["cover"].items()})
    except Exception as e:
        cov["anchor_coverage_probe"] = dict(error=repr(e))
    cov.update(extra)
    ev = dict(property_id=prop, tier=tier, seed=seed, level=getattr(mod, "LEVEL", "exploration"), coverage=jsonable(cov), assumptions=getattr(mod, "ASSUMPTIONS", []), wall_s=round(wall, 2), violations=len(agg["violations"]))
    edir = outroot / "evidence"
    edir.mkdir(parents=True, exist_ok=True)
    (edir / f"{prop}.json").write_text(json.dumps(ev, indent=1))

    print(f"[{prop} {tier} seed={seed}] evaluations={agg['evaluations']} distinct_nontrivial={len(agg['keys'])} verdicts={dict(agg['verdicts'])} wall={wall:.1f}s")
    top = sorted(agg["counters"].items())
    print("  monitors:", ", ".join(f"{k}={v}" for k, v in top[:40]))
    if agg["inconclusive"]:
        print("  inconclusive:", dict(agg["inconclusive"]))
    for l in kf_lines:
        print(l)
    for l in vio_lines:
        print(l)
    if vio_lines:
        for v in agg["violations"][:5]:
            print("  first violations:", json.dumps(jsonable(dict(signature=v.get("signature"), triggers=v.get("triggers"), detail=str(v.get("detail"))[:600], case_id=v.get("case_id")))))
        return 1
    if status:
        print(f"INCONCLUSIVE property={prop}: {status}")
        return 2
    return 0


def main(argv):
    if not argv or argv[0] in ("-h", "--help"):
        print(__doc__)
        return 2
    if argv[0] == "--selftest":
        return selftest()
    prop = argv[0].upper()
    if prop not in ALL_PROPS:
        print("unknown property", prop)
        return 2
    if len(argv) >= 3 and argv[1] == "--replay":
        return replay(prop, argv[2])
    tier = argv[1] if len(argv) > 1 else os.environ.get("VERIF_TIER", "quick")
    if tier not in ("quick", "thorough"):
        print("tier must be quick or thorough")
        return 2
    return run(prop, tier)


if __name__ == "__main__":
    sys.exit(main(sys.argv[1:]))
